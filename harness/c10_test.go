//go:build verif

package verifharness

// C10 — slow consumers are isolated: they lose only their own events.
//
// A generated tree; a generated subset of consumers (plain subscribers of the
// root, of clones and of filtered clones; monitors whose handler blocks) is
// stalled, others are slow.  A stream of 0..4xEventBufsiz events is published
// in bursts of <= EventBufsiz/4, paced by barriers over the healthy nodes
// only.  Oracles: every barrier completes (a blocked publisher shows up
// here); at every barrier every healthy node's cache and strict mirror are
// current (checkQuiet); all healthy subscribers of one publisher hold the
// identical sequence; the root witness holds the reference stream; after the
// stream each stalled consumer is released and must hold at least
// min(published-to-it, EventBufsiz) events, in publication order (an in-order
// subsequence of what its healthy sibling received).  No upper bound and no
// prefix-ness is asserted (the statement promises neither).

import (
	"fmt"
	"strings"
	"sync/atomic"
	"testing"
	"time"

	"github.com/boz/kcache"
	"pgregory.net/rapid"
)

func renderEvs(evs []evRec) []string {
	out := make([]string, len(evs))
	for i, e := range evs {
		out[i] = fmt.Sprintf("%s %s@%s", e.Type, objKey(e.Obj), e.Obj.GetResourceVersion())
	}
	return out
}

func isSubsequence(sub, full []string) (bool, int) {
	j := 0
	for i, s := range sub {
		for j < len(full) && full[j] != s {
			j++
		}
		if j == len(full) {
			return false, i
		}
		j++
	}
	return true, -1
}

func TestC10_SlowConsumers(t *testing.T) {
	burst := kcache.EventBufsiz / 4
	rapid.Check(t, func(t *rapid.T) {
		cfg := worldCfg{prop: "C10", rootFilter: -1, perturb: rapid.Bool().Draw(t, "perturb"), seed: rapid.Uint64().Draw(t, "pseed")}
		if rapid.IntRange(0, 2).Draw(t, "typedTree") == 0 {
			// the same tree through a typed package: stalled consumers are then typed subscriptions
			// (their own forwarding goroutine and buffer sit between the core and the consumer)
			cfg.typed = rapid.SampledFrom([]string{"pod", "service", "deployment"}).Draw(t, "pkg")
			cfg.objType = cfg.typed
		}
		w := newWorld(t, cfg)
		defer w.abort()
		keys := [][2]string{{"a", "p"}, {"a", "q"}, {"a", "r"}, {"b", "p"}, {"b", "q"}, {"c", "p"}}
		// 1. tree
		nattach := rapid.IntRange(2, 8).Draw(t, "nattach")
		for i := 0; i < nattach; i++ {
			var cands []*node
			for _, n := range w.livePublishers() {
				if n.depth() < 3 {
					cands = append(cands, n)
				}
			}
			p := rapid.SampledFrom(cands).Draw(t, "parent")
			kind := rapid.SampledFrom([]string{"sub", "sub", "sub", "clone", "fclone", "fsub", "mon", "mon"}).Draw(t, "kind")
			if kind == "mon" {
				w.attachMonitor(p)
			} else {
				w.attach(p, kind, rapid.SampledFrom([]int{0, 1, 3, 5}).Draw(t, "f"))
			}
		}
		// some warm-up traffic, then a quiescent point
		for i := 0; i < rapid.IntRange(0, 5).Draw(t, "warm"); i++ {
			k := rapid.SampledFrom(keys).Draw(t, "k")
			w.put(k[0], k[1], drawLabels(t))
		}
		w.checkQuiet()
		// 2. victims: stalled plain subscribers and blocked monitors; slow consumers
		type victim struct {
			n       *node
			witness *node
			base    int // witness total count when the victim stopped reading
			vbase   int // the victim's own total count at that moment
		}
		var victims []*victim
		var stalledFiltered []*node
		refilteredStalled, partial, underLoad := false, false, false
		cachesCurrent := func() {
			// the cache of a filtered subscription stays current although nobody reads its Events()
			for _, n := range stalledFiltered {
				deadline := time.Now().Add(wedgeBound)
				for {
					got, err := n.leaf.Cache().List()
					if err != nil {
						w.fail("node %s: List failed: %v", n.path(), err)
					}
					gk, want := keyVersions(got), w.expected(n)
					if sameStrings(gk, want) {
						break
					}
					if time.Now().After(deadline) {
						w.fail("filtered subscription %s whose consumer is stalled: its cache is not current: %v, reference %v", n.path(), gk, want)
					}
					time.Sleep(100 * time.Microsecond)
				}
			}
		}
		for _, n := range w.nodes {
			if n.kind == "fsub" && rapid.IntRange(0, 1).Draw(t, "stallfsub") == 0 {
				w.checkQuiet()
				w.stallNode(n)
				n.lossy = true
				stalledFiltered = append(stalledFiltered, n)
				continue
			}
			if n.kind != "sub" && n.kind != "mon" {
				if n.kind != "root" && rapid.IntRange(0, 3).Draw(t, "slow") == 0 {
					atomic.StoreInt64(&n.delayNs, int64(rapid.IntRange(1, 60).Draw(t, "us"))*1000)
				}
				continue
			}
			switch rapid.IntRange(0, 2).Draw(t, "fate") {
			case 0: // healthy
			case 1: // slow
				d := int64(rapid.IntRange(1, 60).Draw(t, "us")) * 1000
				if n.kind == "mon" {
					atomic.StoreInt64(&n.cb.delayNs, d)
				} else {
					atomic.StoreInt64(&n.delayNs, d)
				}
			case 2: // stalled
				if n.kind == "mon" {
					n.cb.block()
					w.h("handler of monitor %s blocks", n.name)
				} else {
					w.stallNode(n)
					n.lossy = true
				}
				wit := n.parent
				vb := 0
				if n.kind == "mon" {
					vb = n.cb.totalCallbacks()
				} else {
					vb = n.totalCount()
				}
				victims = append(victims, &victim{n: n, witness: wit, base: wit.totalCount(), vbase: vb})
			}
		}
		// 3. the stream
		total := rapid.IntRange(0, 4*kcache.EventBufsiz).Draw(t, "events")
		// now and then a very long stream (up to 150 buffers; its events come
		// from a seeded sequence, not from thousands of draws): however long a consumer stays away, it
		// is merely behind - still subscribed, its buffer still delivered, fresh events still reaching it
		long := false
		var lcg uint64
		longEvery := 20
		if tierThorough() {
			longEvery = 40 // (cases are 25 times as many there, and a long stream with slow consumers takes seconds)
		}
		if rapid.IntRange(0, longEvery-1).Draw(t, "longStream") == 0 {
			sizes := []int{5, 12, 30, 60, 110, 150}
			if n := envInt("VERIF_C10_LONGBUFFERS", 0); n > 0 {
				sizes = append(sizes, n) // development aid: larger sizes are not part of the registered runs (DESIGN 10.19)
			}
			total = kcache.EventBufsiz * rapid.SampledFrom(sizes).Draw(t, "longBuffers")
			long = true
			lcg = rapid.Uint64().Draw(t, "streamSeed") | 1
		}
		pick := func(n int) int {
			lcg = lcg*6364136223846793005 + 1442695040888963407
			return int((lcg >> 33) % uint64(n))
		}
		var ref []string
		rootBase := w.nodes[0].eventCount()
		// one stalled plain subscriber may be CLOSED in the middle of a burst (its buffer possibly full,
		// its unsubscribe racing with the fan-out of the following events): the others lose nothing
		closeAt, closedVictim := -1, false
		for _, v := range victims {
			if v.n.kind == "sub" && total > 0 && closeAt < 0 && rapid.IntRange(0, 2).Draw(t, "closeVictim") == 0 {
				closeAt = rapid.IntRange(0, total-1).Draw(t, "closeAt")
			}
		}
		for sent := 0; sent < total; {
			n := burst
			if total-sent < n {
				n = total - sent
			}
			for i := 0; i < n; i++ {
				if sent+i == closeAt {
					for vi, v := range victims {
						if v.n.kind == "sub" {
							w.closeNode(v.n)
							victims = append(victims[:vi:vi], victims[vi+1:]...)
							closedVictim = true
							break
						}
					}
				}
				var k [2]string
				var del bool
				var lbl map[string]string
				if long {
					k, del = keys[pick(len(keys))], pick(4) == 0
					if x := pick(3); x > 0 {
						lbl = map[string]string{"x": fmt.Sprint(x)}
					}
				} else {
					k = rapid.SampledFrom(keys).Draw(t, "k")
					del = w.api.has(k[0], k[1]) && rapid.IntRange(0, 3).Draw(t, "del") == 0
					if !del {
						lbl = drawLabels(t)
					}
				}
				if del && w.api.has(k[0], k[1]) {
					w.del(k[0], k[1])
					ref = append(ref, fmt.Sprintf("delete %s/%s@%d", k[0], k[1], w.api.rvNow()))
				} else {
					typ := "create"
					if w.api.has(k[0], k[1]) {
						typ = "update"
					}
					w.put(k[0], k[1], lbl)
					ref = append(ref, fmt.Sprintf("%s %s/%s@%d", typ, k[0], k[1], w.api.rvNow()))
				}
			}
			sent += n
			if long && (sent/burst)%16 != 0 {
				// (long streams: the full set of per-burst checks every 16th burst; otherwise a barrier for
				// the healthy nodes and the wait for the stalled filtered subscriptions' caches, which also
				// paces the stream for them - their own intake has one buffer like everybody's)
				w.barrier()
				cachesCurrent()
				continue
			}
			// "never blocks the controller, the caches, the publishers": with every goroutine parked, none
			// may be parked inside a hand-over of an event towards a consumer (a publisher or the
			// controller waiting in send(), a distribute loop) - however full the stalled ones' buffers are
			if len(victims)+len(stalledFiltered) > 0 {
				if waitQuiescent(wedgeBoundNow()) {
					if bs := blockedSenders(); len(bs) > 0 {
						time.Sleep(200 * time.Microsecond)
						if waitQuiescent(wedgeBoundNow()) {
							if bs2 := blockedSenders(); len(bs2) > 0 {
								w.fail("with %d consumers not reading, a goroutine of the library is blocked while handing an event on (after %d events of the stream):\n%s", len(victims)+len(stalledFiltered), sent, bs2[0])
							}
						}
					}
					statLabel("C10", "quiescent_points_checked_for_blocked_senders", 1)
				}
			}
			w.checkQuiet() // healthy nodes only: caches current, mirrors exact, barrier completes
			cachesCurrent()
			// a filtered subscription nobody reads is refiltered: the call must be taken, its cache must follow
			for _, fn := range stalledFiltered {
				if rapid.IntRange(0, 3).Draw(t, "refilterStalled") == 0 {
					w.refilter(fn, rapid.SampledFrom([]int{0, 1, 2, 3, 5, 7}).Draw(t, "sf"))
					refilteredStalled = true
				}
			}
			cachesCurrent()
		}
		w.checkQuiet()
		cachesCurrent()
		for _, n := range stalledFiltered {
			w.unstallNode(n)
		}
		if len(stalledFiltered) > 0 {
			// their buffers are still full at this instant: until their consumers have drained them a
			// marker can be dropped on the way (by design), which a plain barrier would report as a wedge
			w.barrierRetry()
		}
		// 4. healthy nodes: the root witness holds the reference stream; healthy siblings agree
		rootLog := renderEvs(w.nodes[0].eventsFrom(rootBase))
		if !sameStrings(rootLog, ref) {
			w.fail("the controller's healthy subscriber did not receive the published sequence while %d consumers were stalled: got %d events, published %d; first difference at %d; tails %v vs %v (buffer overruns logged: %d, watcher drops logged: %d)", len(victims), len(rootLog), len(ref), firstDiffIndex(rootLog, ref), tail(rootLog, 5), tail(ref, 5), w.plog.Overruns(), w.plog.WatchDrops())
		}
		isVictim := map[*node]bool{}
		for _, v := range victims {
			isVictim[v.n] = true
		}
		for _, n := range w.nodes {
			if n.kind != "sub" || isVictim[n] || n.closed {
				continue
			}
			// a healthy plain subscriber attached at a quiescent point sees exactly what its publisher's own leaf sees
			a, b := renderEvs(n.eventsFrom(0)), renderEvs(n.parent.eventsFrom(0))
			if len(a) > len(b) || !sameStrings(a, b[len(b)-len(a):]) {
				w.fail("healthy subscriber %s and its publisher's witness disagree: %d vs %d events, tails %v vs %v", n.path(), len(a), len(b), tail(a, 5), tail(b, 5))
			}
		}
		// 4b. partial resume: a consumer that really overflowed reads r events and stops again; its
		// buffer then has r free slots, so the next few events published to it (fewer than r, markers
		// included) are within its capacity: "loses only events beyond its buffer capacity" - every one
		// of them must be among what it finally delivers
		type lateSet struct {
			v        *victim
			from, to int // indexes into the witness's event log
		}
		var late []lateSet
		for _, v := range victims {
			// (untyped trees only: a typed subscription has two buffers in series, and what its forwarding
			// goroutine still holds in the first one may legitimately take the freed slots first)
			if cfg.typed != "" || v.n.kind != "sub" || v.witness.totalCount()-v.base <= kcache.EventBufsiz+2 || !rapid.Bool().Draw(t, "partialResume") {
				continue
			}
			r := rapid.IntRange(25, 70).Draw(t, "resumeReads")
			before := v.n.totalCount()
			w.grantStalled(v.n, r)
			deadline := time.Now().Add(wedgeBoundNow())
			for v.n.totalCount() < before+r {
				if time.Now().After(deadline) {
					w.fail("stalled consumer %s resumed for %d events but only %d were delivered to it although its buffer was full", v.n.path(), r, v.n.totalCount()-before)
				}
				time.Sleep(50 * time.Microsecond)
			}
			from, fromTotal := v.witness.eventCount(), v.witness.totalCount()
			for i := 0; i < rapid.IntRange(1, 10).Draw(t, "lateEvents"); i++ {
				k := rapid.SampledFrom(keys).Draw(t, "k")
				w.put(k[0], k[1], drawLabels(t))
			}
			w.checkQuiet()
			cachesCurrent()
			if v.witness.totalCount()-fromTotal <= r-6 {
				late = append(late, lateSet{v, from, v.witness.eventCount()})
			}
		}
		// one stalled plain subscriber may stay stalled to the very end and meet the controller's shutdown
		// with its buffer unread (judged at the end: C11's "closed after any buffered events")
		var keep *victim
		for vi, v := range victims {
			if v.n.kind == "sub" && cfg.typed == "" && rapid.IntRange(0, 3).Draw(t, "keepStalledUntilShutdown") == 0 {
				keep = v
				victims = append(victims[:vi:vi], victims[vi+1:]...)
				break
			}
		}
		// 5. release the stalled consumers and judge what they hold
		overBuf := false
		// (the events published while victims resume are not paced by barriers: their total stays well
		// below one buffer, so that no healthy - possibly slow - consumer can overflow because of them)
		loadBudget := kcache.EventBufsiz / 2
		for _, v := range victims {
			wTotal := v.witness.totalCount() - v.base
			want := wTotal
			if want > kcache.EventBufsiz {
				want = kcache.EventBufsiz
				overBuf = true
			}
			var count func() int
			if v.n.kind == "mon" {
				v.n.cb.unblock()
				count = func() int { return v.n.cb.totalCallbacks() - v.vbase }
			} else {
				// (the pump may have taken one more event before it noticed the stall: counted from the stall point)
				w.unstallNode(v.n)
				count = func() int { return v.n.totalCount() - v.vbase }
				if wTotal > kcache.EventBufsiz && loadBudget >= 5 && rapid.Bool().Draw(t, "resumeUnderLoad") {
					// the consumer resumes while events keep coming: what it receives must still be an
					// in-order subsequence of what was published to it (checked below against the witness)
					nl := rapid.IntRange(5, min(40, loadBudget)).Draw(t, "loadEvents")
					loadBudget -= nl
					for i := 0; i < nl; i++ {
						k := rapid.SampledFrom(keys).Draw(t, "k")
						w.put(k[0], k[1], drawLabels(t))
					}
					underLoad = true
				}
			}
			deadline := time.Now().Add(wedgeBound)
			for count() < want {
				if time.Now().After(deadline) {
					w.fail("stalled consumer %s was sent %d events while it was not reading but delivered only %d after being released: events within the buffer capacity (%d) were lost", v.n.path(), wTotal, count(), kcache.EventBufsiz)
				}
				time.Sleep(50 * time.Microsecond)
			}
		}
		w.barrierRetry()
		for _, v := range victims {
			var got []string
			if v.n.kind == "mon" {
				recs, _, _, overlap, _ := v.n.cb.snapshot()
				if overlap != "" {
					w.fail("monitor %s: %s", v.n.path(), overlap)
				}
				for _, r := range recs {
					if r.Kind != "init" {
						got = append(got, fmt.Sprintf("%s %s@%s", r.Kind, objKey(r.Obj), r.Obj.GetResourceVersion()))
					}
				}
			} else {
				got = renderEvs(v.n.eventsFrom(0))
			}
			full := renderEvs(v.witness.eventsFrom(0))
			for _, l := range late {
				if l.v != v {
					continue
				}
				have := map[string]bool{}
				for _, g := range got {
					have[g] = true
				}
				for _, e := range full[l.from:l.to] {
					if !have[e] {
						w.fail("stalled consumer %s overflowed, then read some events (freeing more buffer slots than were needed) and stopped again; %q, published to it afterwards, fitted into its buffer but was never delivered (events published to it after the partial resume: %v)", v.n.path(), e, full[l.from:l.to])
					}
				}
				partial = true
			}
			if ok, at := isSubsequence(got, full); !ok {
				w.fail("what stalled consumer %s received is not an in-order subsequence of what was published to it: element %d (%s) is out of order or was never published; received tail %v", v.n.path(), at, got[at], tail(got, 6))
			}
		}
		w.checkQuiet()
		if keep != nil {
			// everything published has been distributed (barrier above): the consumer holds min(sent, buffer)
			// unread events.  The controller is closed; the consumer's Done() must close regardless; then it
			// resumes and must find those events, and only behind them the closed channel
			wTotal := keep.witness.totalCount() - keep.base
			want := min(wTotal, kcache.EventBufsiz)
			done := make(chan struct{})
			go func() { w.root.Close(); close(done) }()
			w.waitFor(done, "root Close() returning")
			w.waitFor(w.root.Done(), "root Done() after Close()")
			w.waitFor(keep.n.doneCh(), fmt.Sprintf("Done() of %s (its consumer is not reading) after the controller was closed", keep.n.path()))
			w.unstallNode(keep.n)
			w.waitFor(keep.n.eof, fmt.Sprintf("Events() of %s being closed after the controller was closed", keep.n.path()))
			if got := keep.n.totalCount() - keep.vbase; got < want {
				w.fail("subscriber %s held %d unread events in its buffer (%d were sent to it while it was not reading) when the controller was closed; it then became Done and its Events() channel was closed after only %d of them: buffered events were discarded by the shutdown", keep.n.path(), want, wTotal, got)
			}
			statLabel("C10", "stalled_subscriber_met_the_shutdown_with_a_full_buffer", 1)
		}
		w.finish()
		healthySibling := false
		for _, v := range victims {
			for _, s := range v.n.parent.children {
				if !isVictim[s] && s.kind != "mon" {
					healthySibling = true
				}
			}
			healthySibling = healthySibling || v.n.parent.leaf != nil
		}
		nt := (len(victims) > 0 && overBuf && healthySibling) || (len(stalledFiltered) > 0 && total > kcache.EventBufsiz)
		hist := w.hist
		if len(hist) > 40 {
			hist = append(append([]string(nil), hist[:30]...), fmt.Sprintf("... (%d more operations)", len(w.hist)-30))
		}
		var vkinds []string
		for _, v := range victims {
			vkinds = append(vkinds, v.n.kind+"@"+v.n.parent.kind)
		}
		for _, n := range stalledFiltered {
			vkinds = append(vkinds, n.kind+"@"+n.parent.kind)
		}
		statCase("C10", hashString(strings.Join(w.hist, ";")), nt, func() interface{} {
			return map[string]interface{}{"nodes": len(w.nodes), "stalled": vkinds, "events": total, "history_head": hist}
		}, fmt.Sprintf("refiltered_a_stalled_filtered_subscription=%v", refilteredStalled), fmt.Sprintf("stalled=%d", min(len(victims), 3)), fmt.Sprintf("partial_resume_after_overflow=%v", partial), fmt.Sprintf("resumed_while_events_kept_coming=%v", underLoad), fmt.Sprintf("stream_over_buffer=%v", total > kcache.EventBufsiz), fmt.Sprintf("closed_a_stalled_subscriber_mid_burst=%v", closedVictim), fmt.Sprintf("long_stream_of_5_to_150_buffers=%v", long), "typed_tree="+cfg.typed)
	})
}
