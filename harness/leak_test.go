//go:build verif

package verifharness

// Leak detector: counts goroutines that were *created by* library code
// (github.com/boz/kcache/... or github.com/boz/go-lifecycle).  Harness
// goroutines that merely call into the library are not counted.

import (
	"regexp"
	goruntime "runtime"
	"strings"
	"time"
)

var createdByRe = regexp.MustCompile(`(?m)^created by (\S+)`)

func libGoroutines() (int, string) {
	buf := make([]byte, 1<<20)
	for {
		n := goruntime.Stack(buf, true)
		if n < len(buf) {
			buf = buf[:n]
			break
		}
		buf = make([]byte, 2*len(buf))
	}
	cnt := 0
	var sample []string
	for _, g := range strings.Split(string(buf), "\n\n") {
		m := createdByRe.FindStringSubmatch(g)
		if m == nil {
			continue
		}
		creator := m[1]
		if strings.HasPrefix(creator, "github.com/boz/kcache") || strings.HasPrefix(creator, "github.com/boz/go-lifecycle") {
			cnt++
			if len(sample) < 12 {
				sample = append(sample, g)
			}
		}
	}
	return cnt, strings.Join(sample, "\n\n")
}

// waitNoLibGoroutines polls until no library goroutine is left or the bound
// expires; returns the remaining count and their stacks.
func waitNoLibGoroutines(bound time.Duration) (int, string) {
	deadline := time.Now().Add(bound)
	sleep := 50 * time.Microsecond
	for {
		c, dump := libGoroutines()
		if c == 0 {
			return 0, ""
		}
		if time.Now().After(deadline) {
			return c, dump
		}
		time.Sleep(sleep)
		if sleep < 20*time.Millisecond {
			sleep *= 2
		}
	}
}

// waitLibGoroutinesAtMost polls until the count is <= n.
func waitLibGoroutinesAtMost(n int, bound time.Duration) (int, string) {
	deadline := time.Now().Add(bound)
	sleep := 50 * time.Microsecond
	for {
		c, dump := libGoroutines()
		if c <= n {
			return c, ""
		}
		if time.Now().After(deadline) {
			return c, dump
		}
		time.Sleep(sleep)
		if sleep < 20*time.Millisecond {
			sleep *= 2
		}
	}
}
