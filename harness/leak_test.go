//go:build verif

package verifharness

// Leak detector: counts goroutines that were *created by* library code
// (github.com/boz/kcache/... or github.com/boz/go-lifecycle).  Harness
// goroutines that merely call into the library are not counted.

import (
	"regexp"
	goruntime "runtime"
	"strings"
	"time"
)

var createdByRe = regexp.MustCompile(`(?m)^created by (\S+)`)

func libGoroutines() (int, string) {
	buf := make([]byte, 1<<20)
	for {
		n := goruntime.Stack(buf, true)
		if n < len(buf) {
			buf = buf[:n]
			break
		}
		buf = make([]byte, 2*len(buf))
	}
	cnt := 0
	var sample []string
	for _, g := range strings.Split(string(buf), "\n\n") {
		m := createdByRe.FindStringSubmatch(g)
		if m == nil {
			continue
		}
		creator := m[1]
		if strings.HasPrefix(creator, "github.com/boz/kcache") || strings.HasPrefix(creator, "github.com/boz/go-lifecycle") {
			cnt++
			if len(sample) < 12 {
				sample = append(sample, g)
			}
		}
	}
	return cnt, strings.Join(sample, "\n\n")
}

// waitNoLibGoroutines polls until no library goroutine is left or the bound
// expires; returns the remaining count and their stacks.
func waitNoLibGoroutines(bound time.Duration) (int, string) {
	deadline := time.Now().Add(bound)
	sleep := 50 * time.Microsecond
	for {
		c, dump := libGoroutines()
		if c == 0 {
			return 0, ""
		}
		if time.Now().After(deadline) {
			return c, dump
		}
		time.Sleep(sleep)
		if sleep < 20*time.Millisecond {
			sleep *= 2
		}
	}
}

// waitLibGoroutinesAtMost polls until the count is <= n.
func waitLibGoroutinesAtMost(n int, bound time.Duration) (int, string) {
	deadline := time.Now().Add(bound)
	sleep := 50 * time.Microsecond
	for {
		c, dump := libGoroutines()
		if c <= n {
			return c, ""
		}
		if time.Now().After(deadline) {
			return c, dump
		}
		time.Sleep(sleep)
		if sleep < 20*time.Millisecond {
			sleep *= 2
		}
	}
}

var goroutineHeaderRe = regexp.MustCompile(`(?m)^goroutine (\d+) \[([^\],]+)`)

// activeGoroutines takes a stop-the-world snapshot of all goroutines and
// returns how many, other than the caller, are running, runnable, sleeping or
// in a system call: goroutines that will make progress on their own.  A
// goroutine parked in select / chan receive / chan send cannot have a
// non-empty inbox, so "zero active" means nothing is in flight anywhere in
// the process (timers aside).
func activeGoroutines() (int, string) {
	buf := make([]byte, 1<<20)
	for {
		n := goruntime.Stack(buf, true)
		if n < len(buf) {
			buf = buf[:n]
			break
		}
		buf = make([]byte, 2*len(buf))
	}
	active := 0
	var which []string
	for i, g := range strings.Split(string(buf), "\n\n") {
		if i == 0 {
			continue // the caller itself (always listed first)
		}
		m := goroutineHeaderRe.FindStringSubmatch(g)
		if m == nil {
			continue
		}
		switch m[2] {
		case "running", "runnable", "sleep", "syscall":
			active++
			if len(which) < 4 {
				which = append(which, g)
			}
		}
	}
	return active, strings.Join(which, "\n\n")
}

// waitQuiescent waits until no other goroutine of the process is active.
func waitQuiescent(bound time.Duration) bool {
	deadline := time.Now().Add(bound)
	for i := 0; ; i++ {
		if n, _ := activeGoroutines(); n == 0 {
			return true
		}
		if time.Now().After(deadline) {
			return false
		}
		if i < 20 {
			goruntime.Gosched()
		} else {
			time.Sleep(50 * time.Microsecond)
		}
	}
}

// blockedSenders: library goroutines that are parked while handing an event to
// a consumer-facing stage: inside (*_subscription).send (a publisher or the
// controller waiting for a subscription's goroutine to take an event) or
// inside a distribute function.  In kcache those hand-overs never wait for a
// consumer: a subscription's goroutine is always back in its select, and its
// own output is a non-blocking send.  Call at quiescence (waitQuiescent).
func blockedSenders() []string {
	buf := make([]byte, 1<<20)
	for {
		n := goruntime.Stack(buf, true)
		if n < len(buf) {
			buf = buf[:n]
			break
		}
		buf = make([]byte, 2*len(buf))
	}
	var out []string
	for i, g := range strings.Split(string(buf), "\n\n") {
		if i == 0 {
			continue
		}
		m := goroutineHeaderRe.FindStringSubmatch(g)
		if m == nil {
			continue
		}
		switch m[2] {
		case "select", "chan send", "chan receive", "sleep":
		default:
			continue
		}
		if strings.Contains(g, "kcache.(*_subscription).send(") || strings.Contains(g, ").distributeEvent(") || strings.Contains(g, ").distributeEvents(") {
			out = append(out, g)
		}
	}
	return out
}
