//go:build verif

package verifharness

// C12 — termination is clean: no hang, no leak, no zombie, no panic.
//
// Shutdown-point enumeration: a workload of n steps is drawn once and then
// re-run n+1 times on fresh worlds, firing the shutdown trigger after step k
// for every k in 0..n.  The workload forces the interesting states: root not
// yet ready (first list gated), relist pending at the gate, watch stream
// closed (retry timer pending), stalled consumers, refilters; API calls are
// issued concurrently with the trigger and again after Done.  The fake client
// honours ctx (the property's premise).
//
// Oracle: Close() returns and Done() closes within the wedge bound; then no
// goroutine started by the library is left (context still live unless the
// trigger was its cancellation); every API call returned ErrNotRunning or a
// value; every object obtained from a call racing with shutdown becomes done.

import (
	"errors"
	"fmt"
	"strings"
	"sync"
	"testing"
	"time"

	"github.com/boz/kcache"
	"pgregory.net/rapid"
)

type wlStep struct {
	Op      string
	A, B, C int
	L       map[string]string
}

func (s wlStep) String() string {
	return fmt.Sprintf("%s(%d,%d,%d%s)", s.Op, s.A, s.B, s.C, labelsStr(s.L))
}

var wlOps = []string{"release", "put", "put", "del", "attach", "attach", "mon", "refilter", "closeNode", "stall", "disconnect", "relistPending", "relistDone", "frames", "flood"}

func genWorkload() *rapid.Generator[[]wlStep] {
	return rapid.Custom(func(t *rapid.T) []wlStep {
		n := rapid.IntRange(1, 14).Draw(t, "nsteps")
		out := make([]wlStep, n)
		for i := range out {
			out[i] = wlStep{Op: rapid.SampledFrom(wlOps).Draw(t, "op"), A: rapid.IntRange(0, 50).Draw(t, "a"), B: rapid.IntRange(0, 50).Draw(t, "b"), C: rapid.IntRange(0, 50).Draw(t, "c"), L: drawLabels(t)}
		}
		if rapid.IntRange(0, 3).Draw(t, "releaseEarly") > 0 {
			out[0].Op = "release"
		}
		if rapid.IntRange(0, 7).Draw(t, "fullBuffer") == 0 {
			// a filtered subscription whose consumer does not read, its buffer filled, then refiltered:
			// the shutdown points that follow include "a Refilter's events found no room"
			prefix := []wlStep{{Op: "release"}, {Op: "attachFsub", C: rapid.IntRange(0, 50).Draw(t, "ff")}, {Op: "stallFsub"}, {Op: "flood", B: rapid.IntRange(0, 50).Draw(t, "fb")}}
			if len(out) > 8 {
				out = out[:8]
			}
			out = append(prefix, out...)
		}
		if envInt("VERIF_C12_RECONNECT", 0) != 0 {
			// real-time states: the watch stream is dropped and the watcher has
			// reconnected (after the library's 1 s retry delay) before the trigger fires
			if len(out) > 7 {
				out = out[:7]
			}
			out[0].Op = "release"
			pos := rapid.IntRange(1, len(out)).Draw(t, "reconnectAt")
			out = append(out[:pos], append([]wlStep{{Op: "reconnectWait", A: rapid.IntRange(0, 3).Draw(t, "connErrs")}}, out[pos:]...)...)
		}
		return out
	})
}

type c12State struct {
	pendingRelist *listReq
	forced        map[string]bool
}

// c12Apply runs one workload step; steps that are not enabled are skipped.
func c12Apply(w *world, st *c12State, s wlStep) {
	switch s.Op {
	case "release":
		if w.firstReq != nil {
			w.releaseFirst(lfNone)
		}
	case "put":
		k := treeKeys[s.A%len(treeKeys)]
		w.put(k[0], k[1], s.L)
	case "del":
		k := treeKeys[s.A%len(treeKeys)]
		w.del(k[0], k[1])
	case "attach":
		ps := w.livePublishers()
		var cands []*node
		for _, p := range ps {
			if p.depth() < 3 {
				cands = append(cands, p)
			}
		}
		if len(cands) == 0 || len(w.nodes) > 10 {
			return
		}
		w.attach(cands[s.A%len(cands)], attachKinds[s.B%len(attachKinds)], s.C%len(w.fam))
	case "attachFsub":
		if !w.rootReady {
			return
		}
		w.attach(w.nodes[0], "fsub", 1+s.C%2)
	case "stallFsub":
		for _, n := range w.live() {
			if n.kind == "fsub" && !n.isStalled() {
				w.stallNode(n)
				n.lossy = true
				st.forced["stalled-consumer"] = true
				break
			}
		}
	case "mon":
		ps := w.livePublishers()
		if len(ps) == 0 || len(w.nodes) > 10 {
			return
		}
		w.attachMonitor(ps[s.A%len(ps)])
	case "refilter":
		fs := w.liveFiltered()
		if len(fs) == 0 {
			return
		}
		w.refilter(fs[s.A%len(fs)], s.B%len(w.fam))
	case "closeNode":
		var cs []*node
		for _, n := range w.live() {
			if n.kind != "root" {
				cs = append(cs, n)
			}
		}
		if len(cs) == 0 {
			return
		}
		w.closeNode(cs[s.A%len(cs)])
	case "stall":
		var cs []*node
		for _, n := range w.live() {
			if n.kind == "sub" || n.kind == "fsub" {
				cs = append(cs, n)
			}
		}
		if len(cs) == 0 {
			return
		}
		n := cs[s.A%len(cs)]
		w.stallNode(n)
		n.lossy = true
		st.forced["stalled-consumer"] = true
	case "disconnect":
		if !w.rootReady {
			return
		}
		if s.A%2 == 0 {
			w.api.mu.Lock()
			w.api.connErrs += 1 + s.B%2
			w.api.mu.Unlock()
		}
		n := w.api.closeSessions()
		w.h("watch streams closed by the server (%d); reconnect timer pending", n)
		st.forced["mid-reconnect"] = true
	case "flood":
		// more events than a buffer holds while some consumer is not reading: its subscription's
		// buffer is full from now on (whatever is sent to it next finds no room)
		if !w.rootReady || !st.forced["stalled-consumer"] || st.forced["buffer-full"] {
			return
		}
		for i := 0; i < kcache.EventBufsiz+10; i++ {
			k := treeKeys[i%len(treeKeys)]
			// (labels alternate per round: every event crosses the x=1 / x=2 filters, so filtered
			// subscriptions receive one event per change as well)
			w.put(k[0], k[1], map[string]string{"x": fmt.Sprint(1 + (i/len(treeKeys))%2)})
			if i%25 == 24 {
				w.barrier()
			}
		}
		w.barrier()
		st.forced["buffer-full"] = true
		// a stalled filtered subscription is refiltered now: whatever the Refilter emits finds no room
		for _, n := range w.live() {
			if n.kind == "fsub" && n.isStalled() {
				w.refilter(n, 1+(s.B+n.filt)%2) // x=1 <-> x=2: both evicts and admits flooded objects
				st.forced["refilter-into-full-buffer"] = true
				break
			}
		}
	case "frames":
		if !w.rootReady {
			return
		}
		n := w.api.injectFrames(s.A)
		w.h("non-object frame (%s) on %d watch streams", []string{"Status 410", "Bookmark", "unknown type", "ERROR frame with an object payload"}[s.A%4], n)
		st.forced["after-non-object-frame"] = true
	case "reconnectWait":
		if !w.rootReady {
			return
		}
		ce := 0
		if s.A == 0 {
			ce = 1
		}
		w.api.mu.Lock()
		w.api.connErrs += ce
		w.api.mu.Unlock()
		n := w.api.closeSessions()
		time.Sleep(time.Duration(1+ce)*time.Second + 80*time.Millisecond)
		w.h("watch streams closed by the server (%d), %d connect errors, then waited for the reconnect", n, ce)
		if w.api.liveSessions() > 0 {
			st.forced["after-reconnect"] = true
		}
	case "relistPending":
		if !w.cfg.gatedRelist || !w.rootReady || st.pendingRelist != nil {
			return
		}
		req := w.api.awaitListWedge()
		if req == nil {
			w.fail("WEDGE: the controller issued no further List call (period %v)", w.cfg.period)
		}
		st.pendingRelist = req
		w.h("relist #%d pending at the gate", req.k)
		st.forced["mid-relist"] = true
	case "relistDone":
		if st.pendingRelist == nil {
			return
		}
		snap := st.pendingRelist.release(w.api, s.A%2 == 0)
		w.h("pending relist released at rv %d", snap.rv)
		st.pendingRelist = nil
	}
}

type apiResult struct {
	what string
	err  error
	done <-chan struct{}
}

// c12Call performs API call number c on node n; it never blocks the caller
// beyond the call itself.
func c12Call(w *world, n *node, c int) apiResult {
	pub := n.publisher()
	switch c % 10 {
	case 0:
		if pub != nil {
			s, err := pub.Subscribe()
			if err == nil {
				go func() {
					for range s.Events() {
					}
				}()
				return apiResult{"Subscribe on " + n.path(), nil, s.Done()}
			}
			return apiResult{"Subscribe on " + n.path(), err, nil}
		}
	case 1:
		if pub != nil {
			s, err := pub.SubscribeWithFilter(wrapFilter(w.fam[c%len(w.fam)]))
			if err == nil {
				go func() {
					for range s.Events() {
					}
				}()
				return apiResult{"SubscribeWithFilter on " + n.path(), nil, s.Done()}
			}
			return apiResult{"SubscribeWithFilter on " + n.path(), err, nil}
		}
	case 2:
		if pub != nil {
			s, err := pub.SubscribeForFilter()
			if err == nil {
				go func() {
					for range s.Events() {
					}
				}()
				return apiResult{"SubscribeForFilter on " + n.path(), nil, s.Done()}
			}
			return apiResult{"SubscribeForFilter on " + n.path(), err, nil}
		}
	case 3:
		if pub != nil {
			s, err := pub.Clone()
			if err == nil {
				return apiResult{"Clone on " + n.path(), nil, s.Done()}
			}
			return apiResult{"Clone on " + n.path(), err, nil}
		}
	case 4:
		if pub != nil {
			s, err := pub.CloneWithFilter(wrapFilter(w.fam[c%len(w.fam)]))
			if err == nil {
				return apiResult{"CloneWithFilter on " + n.path(), nil, s.Done()}
			}
			return apiResult{"CloneWithFilter on " + n.path(), err, nil}
		}
	case 5:
		if pub != nil {
			s, err := pub.CloneForFilter()
			if err == nil {
				return apiResult{"CloneForFilter on " + n.path(), nil, s.Done()}
			}
			return apiResult{"CloneForFilter on " + n.path(), err, nil}
		}
	case 6:
		if n.fsub != nil {
			return apiResult{"Refilter on " + n.path(), n.fsub.Refilter(wrapFilter(w.fam[c%len(w.fam)])), nil}
		}
		if n.fctl != nil {
			return apiResult{"Refilter on " + n.path(), n.fctl.Refilter(wrapFilter(w.fam[c%len(w.fam)])), nil}
		}
	case 7:
		if pub != nil {
			m, err := kcache.NewMonitor(pub, newCbLog().handler())
			if err == nil {
				return apiResult{"NewMonitor on " + n.path(), nil, m.Done()}
			}
			return apiResult{"NewMonitor on " + n.path(), err, nil}
		}
	case 8:
		n.closeReal()
		return apiResult{"Close on " + n.path(), nil, nil}
	}
	if n.leaf != nil {
		if c%2 == 0 {
			_, err := n.leaf.Cache().List()
			return apiResult{"Cache().List on " + n.path(), err, nil}
		}
		if c%4 == 1 {
			_, err := n.leaf.Cache().GetObject(mkPod("a", "p", "1", nil))
			return apiResult{"Cache().GetObject on " + n.path(), err, nil}
		}
		_, err := n.leaf.Cache().Get("a", "p")
		return apiResult{"Cache().Get on " + n.path(), err, nil}
	}
	return apiResult{"noop", nil, nil}
}

// c12RunPoint executes steps[:k] on a fresh world and fires the trigger.
func c12RunPoint(t failer, steps []wlStep, k int, trigger string, gated bool, perturbSeed uint64, calls [][2]int) map[string]bool {
	cfg := worldCfg{prop: "C12", rootFilter: -1, gateFirst: true, perturb: perturbSeed%2 == 0, seed: perturbSeed}
	if gated {
		cfg.gatedRelist = true
		cfg.period = 1500000
	}
	w := newWorld(t, cfg)
	defer w.abort()
	st := &c12State{forced: map[string]bool{}}
	for _, s := range steps[:k] {
		c12Apply(w, st, s)
	}
	if !w.rootReady {
		st.forced["not-yet-ready"] = true
	}
	w.h("--- trigger %s after step %d of %d", trigger, k, len(steps))
	// API calls racing with the trigger
	results := make(chan apiResult, len(calls)+8)
	var wg sync.WaitGroup
	for _, c := range calls {
		n := w.nodes[c[0]%len(w.nodes)]
		wg.Add(1)
		go func(n *node, c int) {
			defer wg.Done()
			results <- c12Call(w, n, c)
		}(n, c[1])
	}
	if len(calls) > 0 {
		st.forced["api-calls-racing"] = true
	}
	closers := 1
	closed := make(chan struct{})
	switch trigger {
	case "close":
	case "closeN":
		closers = 4
		st.forced["concurrent-close"] = true
	case "cancel":
		closers = 0
		w.cancel()
	case "listerror":
		closers = 0
		switch {
		case w.firstReq != nil:
			w.firstReq.fail(lfError)
			w.firstReq = nil
		case st.pendingRelist != nil:
			st.pendingRelist.fail(lfNonList)
			st.pendingRelist = nil
		case gated:
			// (a racing Close() call may already have shut the root down)
			select {
			case req := <-w.api.gatech:
				req.fail(lfNoItems)
			case <-w.root.Done():
			case <-time.After(wedgeBound + wedgeConfirm):
				w.fail("WEDGE: no List call to fail and the root is not done")
			}
		default:
			closers = 1 // no list in sight (period 1h): fall back to Close
		}
	}
	var cwg sync.WaitGroup
	for i := 0; i < closers; i++ {
		cwg.Add(1)
		go func() { defer cwg.Done(); w.root.Close() }()
	}
	go func() { cwg.Wait(); close(closed) }()
	w.waitFor(closed, fmt.Sprintf("root Close() returning (trigger %s)", trigger))
	w.waitFor(w.root.Done(), fmt.Sprintf("root Done() closing (trigger %s)", trigger))
	// racing calls must all have returned
	allDone := make(chan struct{})
	go func() { wg.Wait(); close(allDone) }()
	w.waitFor(allDone, "API calls racing with shutdown returning")
	close(results)
	for r := range results {
		if r.err != nil && !errors.Is(r.err, kcache.ErrNotRunning) {
			w.fail("%s racing with shutdown returned %v; expected a result or ErrNotRunning", r.what, r.err)
		}
		if r.done != nil {
			w.waitFor(r.done, fmt.Sprintf("the object returned by %s (racing with shutdown) becoming done", r.what))
		}
	}
	// every node of the tree is done
	for _, n := range w.nodes {
		w.unstallNode(n)
	}
	for _, n := range w.nodes {
		w.waitFor(n.doneCh(), fmt.Sprintf("Done() of %s after the root is done", n.path()))
		if n.kind != "mon" {
			w.waitFor(n.eof, fmt.Sprintf("Events() of %s closed after the root is done", n.path()))
		}
	}
	// no library goroutine left (the context is still live unless it was the trigger)
	w.finished = true
	if c, dump := waitNoLibGoroutines(wedgeBound); c != 0 {
		if len(dump) > 6000 {
			dump = dump[:6000]
		}
		w.cancel()
		w.fail("%d goroutines started by the library are still running after the root is done (trigger %s):\n%s", c, trigger, dump)
	}
	// API calls after Done: all return, with ErrNotRunning or a value
	for i, n := range w.nodes {
		for c := 0; c < 10; c++ {
			ch := make(chan apiResult, 1)
			go func(n *node, c int) { ch <- c12Call(w, n, c) }(n, c+10*i)
			select {
			case r := <-ch:
				if r.err != nil && !errors.Is(r.err, kcache.ErrNotRunning) {
					w.fail("%s after Done returned %v; expected ErrNotRunning", r.what, r.err)
				}
				if r.done != nil {
					w.waitFor(r.done, fmt.Sprintf("the object returned by %s (after Done) being done", r.what))
				}
			case <-time.After(wedgeBound):
				w.fail("WEDGE: API call #%d on %s blocked after the root was done", c, n.path())
			}
		}
	}
	w.cancel()
	if c, dump := waitNoLibGoroutines(wedgeBound); c != 0 {
		w.fail("%d library goroutines left after post-shutdown API calls:\n%s", c, dump)
	}
	return st.forced
}

func TestC12_ShutdownPoints(t *testing.T) {
	rapid.Check(t, func(t *rapid.T) {
		steps := genWorkload().Draw(t, "workload")
		trigger := rapid.SampledFrom([]string{"close", "close", "closeN", "cancel", "listerror"}).Draw(t, "trigger")
		gated := rapid.Bool().Draw(t, "gatedRelists")
		pseed := rapid.Uint64().Draw(t, "pseed")
		ncalls := rapid.IntRange(0, 5).Draw(t, "ncalls")
		calls := make([][2]int, ncalls)
		for i := range calls {
			calls[i] = [2]int{rapid.IntRange(0, 20).Draw(t, "callnode"), rapid.IntRange(0, 99).Draw(t, "call")}
		}
		forced := map[string]bool{}
		first := 0
		for i, s := range steps {
			if s.Op == "reconnectWait" {
				first = i + 1 // the points before it are covered by the ordinary workloads
			}
		}
		for k := first; k <= len(steps); k++ {
			for f := range c12RunPoint(t, steps, k, trigger, gated, pseed+uint64(k), calls) {
				forced[f] = true
			}
		}
		var fl []string
		for f := range forced {
			fl = append(fl, "forced_"+f)
		}
		desc := make([]string, len(steps))
		for i, s := range steps {
			desc[i] = s.String()
		}
		nt := forced["mid-relist"] || forced["mid-reconnect"] || forced["after-reconnect"] || forced["concurrent-close"] || forced["not-yet-ready"] && forced["api-calls-racing"]
		statCase("C12", hashString(trigger+fmt.Sprint(gated)+strings.Join(desc, ";")), nt, func() interface{} {
			return map[string]interface{}{"workload": desc, "trigger": trigger, "gated_relists": gated, "shutdown_points": len(steps) + 1, "racing_api_calls": ncalls}
		}, append(fl, "trigger_"+trigger)...)
		statExtraAdd("C12", "shutdown_points_executed", int64(len(steps)+1))
	})
}
