//go:build verif

package verifharness

// C15 — cache reads are atomic snapshots, linearizable with updates.
//
// A writer executes a generated script of mutating calls (whole-generation
// syncs, refilters toggling between two filters with distinguishable accepted
// sets, single-object updates).  content[i] is the complete cache content
// after call i (computed by the script's own bookkeeping).  The writer
// publishes started=i before and finished=i after call i.  Each reader
// records lo=finished before and hi=started after a read: the value read
// must be content[j] for some j in [lo,hi] (never a half-applied relist or
// refilter), and the j's chosen for one reader never decrease.  Readers
// scribble over every slice they get back.  The test is built with -race: a
// race report fails it.

import (
	"context"
	"fmt"
	goruntime "runtime"
	"sort"
	"strconv"
	"strings"
	"sync"
	"sync/atomic"
	"testing"
	"time"

	"github.com/boz/kcache"
	"github.com/boz/kcache/filter"
	metav1 "k8s.io/apimachinery/pkg/apis/meta/v1"
	"pgregory.net/rapid"
)

type c15Step struct {
	Kind string // gen, refilter, update
	Key  int
}

func c15Render(content map[int]int) string {
	ks := make([]int, 0, len(content))
	for k := range content {
		ks = append(ks, k)
	}
	sort.Ints(ks)
	var b strings.Builder
	for _, k := range ks {
		fmt.Fprintf(&b, "k%d@%d ", k, content[k])
	}
	return b.String()
}

func c15RenderObjs(objs []metav1.Object) (string, string) {
	m := map[int]int{}
	for _, o := range objs {
		if o == nil {
			return "", "List() returned a nil element (slice shared with another caller?)"
		}
		k, err := strconv.Atoi(strings.TrimPrefix(o.GetName(), "k"))
		if err != nil {
			return "", "unexpected object " + objStr(o)
		}
		if _, dup := m[k]; dup {
			return "", "List() returned " + o.GetName() + " twice"
		}
		m[k] = objVersion(o)
	}
	return c15Render(m), ""
}

func TestC15_Snapshots(t *testing.T) {
	rapid.Check(t, func(t *rapid.T) {
		m := rapid.IntRange(1, 6).Draw(t, "objects")
		if rapid.IntRange(0, 3).Draw(t, "large") == 0 {
			// large states: a relist or refilter of hundreds of objects is one atomic step as well
			m = rapid.IntRange(60, 300).Draw(t, "manyObjects")
		}
		nreaders := rapid.IntRange(1, 12).Draw(t, "readers")
		nsteps := rapid.IntRange(10, 160).Draw(t, "steps")
		if m > 6 && nsteps > 40 {
			nsteps = 40
		}
		readerSeed := rapid.Uint64().Draw(t, "readerSeed")
		steps := make([]c15Step, nsteps)
		for i := range steps {
			switch rapid.IntRange(0, 9).Draw(t, "step") {
			case 0, 1, 2, 3, 4:
				steps[i] = c15Step{Kind: "gen"}
			case 5, 6:
				steps[i] = c15Step{Kind: "refilter", Key: rapid.IntRange(1, 2).Draw(t, "toFilter")}
			default:
				steps[i] = c15Step{Kind: "update", Key: rapid.IntRange(0, m-1).Draw(t, "key")}
			}
		}
		// filters: A accepts everything, B the even keys (label x=1), C the odd keys (x=2): A<->B and
		// A<->C only evict or only admit, B<->C does both at once (a refilter applied as "evict, then
		// admit" shows an intermediate content that is no complete state)
		labelsOf := func(k int) map[string]string {
			if k%2 == 0 {
				return map[string]string{"x": "1"}
			}
			return map[string]string{"x": "2"}
		}
		filters := []filter.Filter{filter.Null(), filter.Labels(map[string]string{"x": "1"}), filter.Labels(map[string]string{"x": "2"})}
		accepts := func(f, k int) bool { return f == 0 || (f == 1 && k%2 == 0) || (f == 2 && k%2 == 1) }

		// script bookkeeping: content[i] after call i; content[0] = initial (empty)
		contents := make([]string, nsteps+1)
		contents[0] = c15Render(map[int]int{})
		parent := map[int]int{}
		cur := map[int]int{}
		curF := 0
		ver := 0
		type call struct {
			kind string
			list []metav1.Object
			evt  kcache.Event
			f    int
		}
		calls := make([]call, nsteps)
		allParent := func() []metav1.Object {
			var l []metav1.Object
			for k := 0; k < m; k++ {
				if v, ok := parent[k]; ok {
					l = append(l, mkPod("a", "k"+strconv.Itoa(k), strconv.Itoa(v), labelsOf(k)))
				}
			}
			return l
		}
		nrefilter, nswap := 0, 0
		for i, s := range steps {
			switch s.Kind {
			case "gen":
				// a new generation: every object at the new version, except one
				// key (rotating) that is missing from this listing -- so that a
				// half-applied relist (new versions present, deletion pending, or
				// mixed versions) is never a legal complete state
				ver++
				parent = map[int]int{}
				for k := 0; k < m; k++ {
					if k != ver%(m+1) {
						parent[k] = ver
					}
				}
				calls[i] = call{kind: "sync", list: allParent()}
				cur = map[int]int{}
				for k, v := range parent {
					if accepts(curF, k) {
						cur[k] = v
					}
				}
			case "refilter":
				nrefilter++
				if (curF == 1 || curF == 2) && (curF+s.Key)%3 != 0 {
					nswap++
				}
				curF = (curF + s.Key) % 3
				calls[i] = call{kind: "refilter", list: allParent(), f: curF}
				cur = map[int]int{}
				for k, v := range parent {
					if accepts(curF, k) {
						cur[k] = v
					}
				}
			case "update":
				ver++
				parent[s.Key] = ver
				calls[i] = call{kind: "update", evt: kcache.NewEvent(kcache.EventTypeUpdate, mkPod("a", "k"+strconv.Itoa(s.Key), strconv.Itoa(ver), labelsOf(s.Key)))}
				if accepts(curF, s.Key) {
					cur[s.Key] = ver
				}
			}
			contents[i+1] = c15Render(cur)
		}
		// per step, the version of each key (for Get): parse back lazily from contents
		getAt := func(j, k int) int {
			needle := fmt.Sprintf("k%d@", k)
			idx := strings.Index(contents[j], needle)
			if idx < 0 {
				return -1
			}
			rest := contents[j][idx+len(needle):]
			v, _ := strconv.Atoi(rest[:strings.IndexByte(rest, ' ')])
			return v
		}

		ctx, cancel := context.WithCancel(context.Background())
		c := kcache.NewVerifCache(ctx, newPlog(false, 1), nil, filters[0])
		var started, finished int64
		var stop int32
		var wg sync.WaitGroup
		errs := make(chan string, nreaders+1)
		var reads int64
		for r := 0; r < nreaders; r++ {
			wg.Add(1)
			go func(r int) {
				defer wg.Done()
				rng := readerSeed + uint64(r)*0x9E3779B97F4A7C15
				next := func() uint64 {
					rng += 0x9E3779B97F4A7C15
					x := rng
					x ^= x >> 30
					x *= 0xBF58476D1CE4E5B9
					x ^= x >> 27
					return x
				}
				prev := 0
				for atomic.LoadInt32(&stop) == 0 {
					x := next()
					if x%4 == 0 {
						goruntime.Gosched()
					}
					lo := int(atomic.LoadInt64(&finished))
					if lo < prev {
						lo = prev
					}
					if x%3 == 0 {
						k := int(x>>8) % m
						obj, err := c.Get("a", "k"+strconv.Itoa(k))
						hi := int(atomic.LoadInt64(&started))
						if err != nil {
							errs <- fmt.Sprintf("reader %d: Get failed on a running cache: %v", r, err)
							return
						}
						got := -1
						if obj != nil {
							got = objVersion(obj)
						}
						found := -1
						for j := lo; j <= hi; j++ {
							if getAt(j, k) == got {
								found = j
								break
							}
						}
						if found < 0 {
							errs <- fmt.Sprintf("reader %d: Get(k%d) returned version %d which the cache held at no instant between call and return (states %d..%d, reader's previous state %d): e.g. state %d = [%s]", r, k, got, lo, hi, prev, hi, contents[hi])
							return
						}
						prev = found
					} else {
						list, err := c.List()
						hi := int(atomic.LoadInt64(&started))
						if err != nil {
							errs <- fmt.Sprintf("reader %d: List failed on a running cache: %v", r, err)
							return
						}
						s, msg := c15RenderObjs(list)
						if msg != "" {
							errs <- fmt.Sprintf("reader %d: %s", r, msg)
							return
						}
						found := -1
						for j := lo; j <= hi; j++ {
							if contents[j] == s {
								found = j
								break
							}
						}
						if found < 0 {
							errs <- fmt.Sprintf("reader %d: List() returned [%s] which equals the cache content at no instant between call and return (states %d..%d, reader's previous state %d); state %d = [%s], state %d = [%s]", r, s, lo, hi, prev, lo, contents[lo], hi, contents[hi])
							return
						}
						prev = found
						// the slice belongs to the caller: scribble over it and grow it
						for i := range list {
							list[i] = nil
						}
						list = append(list, nil, nil)
						_ = list
					}
					atomic.AddInt64(&reads, 1)
				}
			}(r)
		}
		// writer
		werr := ""
		for i, cl := range calls {
			atomic.StoreInt64(&started, int64(i+1))
			var err error
			done := make(chan struct{})
			go func() {
				switch cl.kind {
				case "sync":
					_, err = c.Sync(cl.list)
				case "refilter":
					_, err = c.Refilter(cl.list, filters[cl.f])
				case "update":
					_, err = c.Update(cl.evt)
				}
				close(done)
			}()
			select {
			case <-done:
			case <-time.After(30 * time.Second):
				werr = fmt.Sprintf("WEDGE: writer call %d (%s) did not return within 30s with %d concurrent readers", i, cl.kind, nreaders)
			}
			if werr != "" || err != nil {
				if err != nil {
					werr = fmt.Sprintf("writer call %d failed: %v", i, err)
				}
				break
			}
			atomic.StoreInt64(&finished, int64(i+1))
			if i%8 == 0 {
				goruntime.Gosched()
			}
			select {
			case e := <-errs:
				werr = e
			default:
			}
			if werr != "" {
				break
			}
		}
		atomic.StoreInt32(&stop, 1)
		wg.Wait()
		cancel()
		<-c.Done()
		select {
		case e := <-errs:
			if werr == "" {
				werr = e
			}
		default:
		}
		if werr != "" {
			t.Fatalf("C15 violation: %s", werr)
		}
		desc := fmt.Sprintf("m=%d readers=%d steps=%v", m, nreaders, steps)
		nt := nreaders >= 4 && (nsteps >= 50 || m > 6) && nrefilter >= 1
		nreads := atomic.LoadInt64(&reads)
		statCase("C15", hashString(desc), nt, func() interface{} {
			return map[string]interface{}{"objects": m, "readers": nreaders, "writer_calls": nsteps, "refilters": nrefilter, "refilters_evicting_and_admitting": nswap, "reads_checked": nreads, "first_steps": fmt.Sprint(steps[:min(8, len(steps))])}
		}, fmt.Sprintf("readers_ge4=%v", nreaders >= 4), fmt.Sprintf("large_state=%v", m > 6), fmt.Sprintf("refilter_between_disjoint_filters=%v", nswap > 0))
		statExtraAdd("C15", "reads_checked", nreads)
	})
}

// TestC15_ControllerRelists: the same interval-linearizability oracle through
// the public API.  The watch never connects, so the controller cache changes
// only through relists; every relist moves the server to the next
// "generation" (every object re-labelled gen=g, one rotating key missing).
// Lists are gated: the harness publishes started=g before it releases list g
// and finished=g when it has seen the Watch call that follows its
// application.  Concurrent readers of Controller.Cache() must always see one
// complete generation from inside their bracket, never a half-applied relist.
func TestC15_ControllerRelists(t *testing.T) {
	rapid.Check(t, func(t *rapid.T) {
		m := rapid.IntRange(2, 8).Draw(t, "objects")
		if rapid.IntRange(0, 3).Draw(t, "large") == 0 {
			m = rapid.IntRange(70, 200).Draw(t, "manyObjects")
		}
		nreaders := rapid.IntRange(1, 8).Draw(t, "readers")
		ngen := rapid.IntRange(3, 25).Draw(t, "generations")
		a := newFakeAPI()
		a.gated = true
		a.watchDead = true
		ctx, cancel := context.WithCancel(context.Background())
		defer cancel()
		b := kcache.NewBuilder().Context(ctx).Log(newPlog(false, 1)).Client(a)
		b.Lister().RefreshPeriod(time.Millisecond)
		root, err := b.Create()
		if err != nil {
			t.Fatalf("create: %v", err)
		}
		defer func() { cancel(); go root.Close() }()
		// generation g: keys 0..m-1 except g%(m+1), all labelled gen=g
		install := func(g int) {
			for k := 0; k < m; k++ {
				name := "k" + strconv.Itoa(k)
				if k == g%(m+1) {
					a.del("a", name)
					continue
				}
				a.put("a", name, map[string]string{"gen": strconv.Itoa(g)})
			}
		}
		render := func(objs []metav1.Object) (int, string) {
			gen := -1
			keys := map[string]bool{}
			for _, o := range objs {
				if o == nil {
					return -1, "nil element"
				}
				g, err := strconv.Atoi(o.GetLabels()["gen"])
				if err != nil {
					return -1, "object without generation label: " + objStr(o)
				}
				if gen >= 0 && g != gen {
					return -1, fmt.Sprintf("objects of generations %d and %d in one listing: a half-applied relist", gen, g)
				}
				gen = g
				if keys[o.GetName()] {
					return -1, "key listed twice: " + o.GetName()
				}
				keys[o.GetName()] = true
			}
			if gen < 0 {
				return 0, "" // empty: before the first list
			}
			want := m
			if gen%(m+1) < m {
				want = m - 1
			}
			if len(keys) != want || keys["k"+strconv.Itoa(gen%(m+1))] {
				return -1, fmt.Sprintf("generation %d listed with %d objects (expected %d, key k%d absent): a half-applied relist", gen, len(keys), want, gen%(m+1))
			}
			return gen, ""
		}
		var started, finished int64
		var stop int32
		var wg sync.WaitGroup
		errs := make(chan string, nreaders+1)
		var reads int64
		for r := 0; r < nreaders; r++ {
			wg.Add(1)
			go func(r int) {
				defer wg.Done()
				prev := 0
				for atomic.LoadInt32(&stop) == 0 {
					lo := int(atomic.LoadInt64(&finished))
					if lo < prev {
						lo = prev
					}
					list, err := root.Cache().List()
					hi := int(atomic.LoadInt64(&started))
					if err != nil {
						errs <- fmt.Sprintf("reader %d: List failed on a running controller: %v", r, err)
						return
					}
					g, msg := render(list)
					if msg != "" {
						errs <- fmt.Sprintf("reader %d: %s", r, msg)
						return
					}
					if g < lo || g > hi {
						errs <- fmt.Sprintf("reader %d: List() returned generation %d, but only generations %d..%d existed between call and return (its previous read: %d)", r, g, lo, hi, prev)
						return
					}
					prev = g
					for i := range list {
						list[i] = nil
					}
					atomic.AddInt64(&reads, 1)
					if r%2 == 0 {
						goruntime.Gosched()
					}
				}
			}(r)
		}
		fail := ""
		for g := 1; g <= ngen && fail == ""; g++ {
			install(g)
			req := a.awaitListWedge()
			if req == nil {
				fail = fmt.Sprintf("WEDGE: list for generation %d was never issued", g)
				break
			}
			atomic.StoreInt64(&started, int64(g))
			snap := req.release(a, false)
			// applied when the watcher is reset to the list's version (the Watch call fails: watch is dead)
			deadline := time.Now().Add(wedgeBoundNow())
			for {
				seen := false
				for _, rv := range a.watchRVs() {
					if rv == strconv.Itoa(snap.rv) {
						seen = true
					}
				}
				if seen {
					break
				}
				if time.Now().After(deadline) {
					fail = fmt.Sprintf("WEDGE: list for generation %d released but never applied", g)
					break
				}
				time.Sleep(20 * time.Microsecond)
			}
			atomic.StoreInt64(&finished, int64(g))
			select {
			case e := <-errs:
				fail = e
			default:
			}
		}
		atomic.StoreInt32(&stop, 1)
		wg.Wait()
		select {
		case e := <-errs:
			if fail == "" {
				fail = e
			}
		default:
		}
		if fail != "" {
			t.Fatalf("C15 violation: %s", fail)
		}
		if !closeBounded(root) {
			t.Fatalf("C15 violation: WEDGE: Close() did not return")
		}
		cancel()
		nreads := atomic.LoadInt64(&reads)
		statCase("C15", hashString(fmt.Sprintf("controller m=%d r=%d g=%d", m, nreaders, ngen)), nreaders >= 2 && ngen >= 5, func() interface{} {
			return map[string]interface{}{"mode": "controller relists (public API)", "objects": m, "readers": nreaders, "generations": ngen, "reads_checked": nreads}
		}, "controller_relists", fmt.Sprintf("large_state=%v", m > 8))
		statExtraAdd("C15", "reads_checked", nreads)
	})
}
