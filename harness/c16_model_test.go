//go:build verif

package verifharness

// C16 (continued) — the monitor over a publisher the harness owns.  Publisher
// is a public interface: the fake's Subscribe() hands out a subscription whose
// Ready(), Events(), Cache().List() and Done() the harness controls (the fake
// parent of the filter-subscription model), so the windows of the statement
// are produced deterministically: events published while the monitor lists
// its subscription's cache at readiness (they are in the listing or not, and
// are replayed either way), a handler that blocks while events queue up,
// Close() with events pending, a publisher that ends before it ever became
// ready.
//
// Oracle: OnInitialize at most once, first, with exactly the listing the fake
// returned; then one callback per event the fake put into the channel, same
// type and same object, in order - all of them when the subscription is still
// open at the end, a prefix when Close()/termination raced pending events;
// callbacks never overlap; none after Done() was observed; none at all when
// the subscription ended before becoming ready; Close() closes the
// subscription; Done() closes once the subscription is done.

import (
	"fmt"
	"strings"
	"sync/atomic"
	"testing"
	"time"

	"github.com/boz/kcache"
	"github.com/boz/kcache/filter"
	metav1 "k8s.io/apimachinery/pkg/apis/meta/v1"
	"pgregory.net/rapid"
)

type fakePublisher struct{ sub *fsParent }

func (f fakePublisher) Subscribe() (kcache.Subscription, error) { return f.sub, nil }
func (f fakePublisher) SubscribeWithFilter(filter.Filter) (kcache.FilterSubscription, error) {
	panic("not used by NewMonitor")
}
func (f fakePublisher) SubscribeForFilter() (kcache.FilterSubscription, error) {
	panic("not used by NewMonitor")
}
func (f fakePublisher) Clone() (kcache.Controller, error) { panic("not used by NewMonitor") }
func (f fakePublisher) CloneWithFilter(filter.Filter) (kcache.FilterController, error) {
	panic("not used by NewMonitor")
}
func (f fakePublisher) CloneForFilter() (kcache.FilterController, error) {
	panic("not used by NewMonitor")
}

func TestC16_MonitorModel(t *testing.T) {
	rapid.Check(t, func(t *rapid.T) {
		p := newFsParent()
		p.closeTerminates = true
		var hist []string
		h := func(format string, args ...interface{}) { hist = append(hist, fmt.Sprintf(format, args...)) }
		keys := [][2]string{{"a", "p"}, {"a", "q"}, {"b", "p"}}
		var pushed []string // rendering of every event put into the channel, in order
		var pushedObjs []metav1.Object
		var lastEv kcache.Event
		publishRaw := func(why string) bool {
			// "for all event sequences": the monitor forwards what it receives, whatever a cache would
			// have made of it - a redelivered event, an Update at an unchanged version carried by another
			// object, a Create for a key it has seen, a Delete for one it has not
			var ev kcache.Event
			switch rapid.IntRange(0, 3).Draw(t, "raw") {
			case 0:
				if lastEv == nil {
					return false
				}
				ev = lastEv
			case 1, 2:
				p.mu.Lock()
				var cur metav1.Object
				for _, k := range keys {
					if o, ok := p.state[k[0]+"/"+k[1]]; ok {
						cur = o
						break
					}
				}
				p.mu.Unlock()
				if cur == nil {
					return false
				}
				cp := deepCopyObj(cur)
				ev = kcache.NewEvent(kcache.EventTypeUpdate, cp)
			case 3:
				ev = kcache.NewEvent(kcache.EventTypeDelete, mkPod("c", "ghost", "1", nil))
			}
			p.mu.Lock()
			if !p.terminated {
				p.evch <- ev
			}
			p.mu.Unlock()
			pushed = append(pushed, fmt.Sprintf("%s %s@%s", ev.Type(), objKey(ev.Resource()), ev.Resource().GetResourceVersion()))
			pushedObjs = append(pushedObjs, ev.Resource())
			h("%s: raw %s %s", why, ev.Type(), objStr(ev.Resource()))
			return true
		}
		publish := func(why string) {
			if rapid.IntRange(0, 3).Draw(t, "rawEvent") == 0 && publishRaw(why) {
				return
			}
			k := rapid.SampledFrom(keys).Draw(t, "k")
			p.mu.Lock()
			_, exists := p.state[k[0]+"/"+k[1]]
			p.mu.Unlock()
			if exists && rapid.IntRange(0, 3).Draw(t, "del") == 0 {
				p.mu.Lock()
				o := p.state[k[0]+"/"+k[1]]
				p.mu.Unlock()
				p.del(k[0], k[1])
				pushed = append(pushed, "delete "+objKey(o)+"@"+o.GetResourceVersion())
				pushedObjs = append(pushedObjs, o)
				lastEv = kcache.NewEvent(kcache.EventTypeDelete, o)
				h("%s: del %s/%s", why, k[0], k[1])
				return
			}
			typ := "create"
			if exists {
				typ = "update"
			}
			rv := p.put(k[0], k[1], drawLabels(t))
			p.mu.Lock()
			o := p.state[k[0]+"/"+k[1]]
			p.mu.Unlock()
			pushed = append(pushed, fmt.Sprintf("%s %s/%s@%d", typ, k[0], k[1], rv))
			pushedObjs = append(pushedObjs, o)
			lastEv = kcache.NewEvent(kcache.EventType(typ), o)
			h("%s: put %s/%s -> rv %d", why, k[0], k[1], rv)
		}
		for i := 0; i < rapid.IntRange(0, 3).Draw(t, "initial"); i++ {
			k := rapid.SampledFrom(keys).Draw(t, "k")
			p.put(k[0], k[1], drawLabels(t))
		}
		for len(p.evch) > 0 {
			<-p.evch
		}
		before, _ := libGoroutines()
		cb := newCbLog()
		handlerBlocks := rapid.IntRange(0, 2).Draw(t, "handlerBlocks") == 0
		// closeFromHandler >= 0: that callback (0 = OnInitialize, k = the k-th event callback) calls
		// Close() on its own monitor - "stop watching once the object showed up" - which must return
		closeFromHandler := -1
		if rapid.IntRange(0, 4).Draw(t, "closeFromHandler") == 0 {
			closeFromHandler = rapid.IntRange(0, 4).Draw(t, "closeAtCallback")
			handlerBlocks = false
		}
		var monRef atomic.Value
		var ncb int32
		var closeStuck int32
		inner := cb.handler()
		after := func() {
			k := int(atomic.AddInt32(&ncb, 1)) - 1
			if k != closeFromHandler {
				return
			}
			mon, _ := monRef.Load().(kcache.Monitor)
			if mon == nil {
				return
			}
			returned := make(chan struct{})
			go func() { mon.Close(); close(returned) }()
			select {
			case <-returned:
			case <-time.After(wedgeBoundNow()):
				atomic.StoreInt32(&closeStuck, 1)
			}
		}
		handler := kcache.BuildHandler().
			OnInitialize(func(objs []metav1.Object) { inner.OnInitialize(objs); after() }).
			OnCreate(func(o metav1.Object) { inner.OnCreate(o); after() }).
			OnUpdate(func(o metav1.Object) { inner.OnUpdate(o); after() }).
			OnDelete(func(o metav1.Object) { inner.OnDelete(o); after() }).Create()
		m, err := kcache.NewMonitor(fakePublisher{p}, handler)
		if err == nil {
			monRef.Store(m)
		}
		if err != nil {
			t.Fatalf("NewMonitor: %v", err)
		}
		var closeCalls []chan struct{}
		closeAsync := func() {
			ch := make(chan struct{})
			closeCalls = append(closeCalls, ch)
			go func() { m.Close(); close(ch) }()
		}
		fail := func(format string, args ...interface{}) {
			cb.unblock()
			p.terminate()
			t.Fatalf("C16 violation: %s\n  history: %s", fmt.Sprintf(format, args...), strings.Join(hist, "; "))
		}
		defer func() { cb.unblock(); p.terminate() }()
		end := rapid.SampledFrom([]string{"before-ready-terminate", "before-ready-close", "close-quiet", "close-pending", "terminate-pending", "open"}).Draw(t, "end")
		h("end=%s handlerBlocks=%v", end, handlerBlocks)
		observeDone := func(what string) {
			select {
			case <-m.Done():
			case <-time.After(wedgeBoundNow()):
				fail("WEDGE: the monitor's Done() never closed after %s", what)
			}
			atomic.StoreInt32(&cb.doneSeen, 1)
			if n := atomic.LoadInt32(&cb.inflight); n > 0 {
				fail("Done() is closed (%s) while %d callback(s) are still running", what, n)
			}
		}
		if strings.HasPrefix(end, "before-ready") {
			// events may already sit in the subscription's channel: "if the publisher shuts down before
			// becoming ready no callback runs at all" - they stay undelivered
			for i, n := 0, rapid.IntRange(0, 3).Draw(t, "queuedBeforeReady"); i < n; i++ {
				publish("queued before readiness")
			}
			if end == "before-ready-terminate" {
				p.terminate()
			} else {
				closeAsync()
			}
			observeDone(end)
			time.Sleep(200 * time.Microsecond)
			if recs, ninit, _, _, _ := cb.snapshot(); ninit != 0 || len(recs) != 0 {
				fail("the subscription ended before it became ready but callbacks ran: %v", recs)
			}
			if end == "before-ready-close" && atomic.LoadInt32(&p.closes) == 0 {
				fail("Monitor.Close() did not close its subscription")
			}
			if c, dump := waitLibGoroutinesAtMost(before, wedgeBoundNow()); c > before {
				fail("%d library goroutines left:\n%s", c-before, dump)
			}
			statCase("C16", hashString("monmodel;"+strings.Join(hist, ";")), true, func() interface{} {
				return map[string]interface{}{"mode": "monitor over a harness-owned publisher", "history": hist}
			}, "monitor_model", "monitor_model_end_"+end)
			return
		}
		// readiness with the listing held at a gate
		g := make(chan struct{})
		atCall := rapid.Bool().Draw(t, "snapshotAtCall")
		p.mu.Lock()
		p.gate, p.atCall = g, atCall
		p.mu.Unlock()
		close(p.readych)
		select {
		case <-p.onList:
		case <-time.After(wedgeBoundNow()):
			fail("WEDGE: the subscription became ready but the monitor never listed its cache")
		}
		for i := 0; i < rapid.IntRange(0, 3).Draw(t, "duringList"); i++ {
			publish(fmt.Sprintf("while the monitor lists (snapshot at %s)", map[bool]string{true: "call", false: "release"}[atCall]))
		}
		if handlerBlocks {
			cb.block()
		}
		close(g)
		// the stream
		for i := 0; i < rapid.IntRange(0, 12).Draw(t, "events"); i++ {
			publish("event")
		}
		waitCallbacks := func(n int, what string) {
			deadline := time.Now().Add(wedgeBoundNow())
			for {
				recs, _, _, _, _ := cb.snapshot()
				if len(recs) >= n+1 { // + init
					return
				}
				if time.Now().After(deadline) {
					fail("WEDGE: %s: %d events were put into the subscription's channel but only %d callbacks ran", what, n, len(recs)-1)
				}
				time.Sleep(50 * time.Microsecond)
			}
		}
		exact := true
		if closeFromHandler >= 0 && !strings.HasPrefix(end, "before-ready") {
			// the handler closes its own monitor at some callback: Close() must return there, Done() must
			// close, and what was delivered is a prefix of the stream
			end = "closed-by-its-own-handler"
			exact = false
			deadline := time.Now().Add(2 * wedgeBoundNow())
			for int(atomic.LoadInt32(&ncb)) <= closeFromHandler && int(atomic.LoadInt32(&ncb)) < 1+len(pushed) && !isClosedCh(m.Done()) && time.Now().Before(deadline) {
				time.Sleep(50 * time.Microsecond)
			}
			if int(atomic.LoadInt32(&ncb)) > closeFromHandler {
				select {
				case <-m.Done():
				case <-time.After(2 * wedgeBoundNow()):
				}
			}
			if atomic.LoadInt32(&closeStuck) != 0 {
				fail("Close() called by the monitor's own handler (in callback #%d) did not return: the monitor waits for the callback that is waiting for it", closeFromHandler)
			}
			if int(atomic.LoadInt32(&ncb)) > closeFromHandler {
				observeDone("Close() from the monitor's own handler")
			} else {
				// the stream was too short for that callback to happen: close from outside
				closeAsync()
				observeDone("Close()")
			}
		}
		switch end {
		case "open", "close-quiet":
			cb.unblock()
			waitCallbacks(len(pushed), "handler released, subscription open")
			if end == "close-quiet" {
				closeAsync()
				observeDone("Close() with nothing pending")
			}
		case "close-pending":
			closeAsync() // events may still be queued (certainly when the handler blocks)
			exact = false
			time.Sleep(time.Duration(rapid.IntRange(0, 300).Draw(t, "holdUs")) * time.Microsecond)
			cb.unblock()
			observeDone("Close() with events pending")
		case "terminate-pending":
			p.terminate()
			exact = false
			time.Sleep(time.Duration(rapid.IntRange(0, 300).Draw(t, "holdUs")) * time.Microsecond)
			cb.unblock()
			observeDone("the subscription ended with events pending")
		}
		if end != "open" {
			publishAfter := rapid.IntRange(0, 2).Draw(t, "after")
			for i := 0; i < publishAfter; i++ {
				k := keys[0]
				p.put(k[0], k[1], nil) // dropped by the fake: the subscription has ended
			}
			time.Sleep(200 * time.Microsecond)
		}
		recs, ninit, initAt, overlap, afterDone := cb.snapshot()
		if overlap != "" {
			fail("%s", overlap)
		}
		if afterDone != "" {
			fail("%s", afterDone)
		}
		if ninit > 1 {
			fail("OnInitialize ran %d times", ninit)
		}
		if ninit == 0 {
			if exact || len(recs) > 0 {
				fail("the subscription became ready and the monitor listed it, but OnInitialize never ran (callbacks: %v)", recs)
			}
		} else {
			if initAt != 0 {
				fail("OnInitialize ran after %d other callbacks", initAt)
			}
			p.mu.Lock()
			listed := p.lastList
			p.mu.Unlock()
			if got, want := keyVersions(recs[0].Init), keyVersions(listed); !sameStrings(got, want) {
				fail("OnInitialize received %v, the listing returned to the monitor was %v", got, want)
			}
			var cbs []string
			for i, r := range recs[1:] {
				cbs = append(cbs, fmt.Sprintf("%s %s@%s", r.Kind, objKey(r.Obj), r.Obj.GetResourceVersion()))
				if i < len(pushedObjs) && r.Obj != pushedObjs[i] {
					fail("callback %d carries a different object than the event it stands for: %s vs %s", i, objStr(r.Obj), objStr(pushedObjs[i]))
				}
			}
			if len(cbs) > len(pushed) || !sameStrings(cbs, pushed[:len(cbs)]) {
				fail("callbacks %v are not a prefix of the events put into the channel %v", cbs, pushed)
			}
			if exact && len(cbs) != len(pushed) {
				fail("%d events were delivered to the monitor, %d callbacks ran", len(pushed), len(cbs))
			}
		}
		if end == "open" {
			closeAsync()
			observeDone("final Close()")
		}
		if strings.HasPrefix(end, "close") || end == "open" {
			if atomic.LoadInt32(&p.closes) == 0 {
				fail("Monitor.Close() did not close its subscription")
			}
		}
		for _, ch := range closeCalls {
			select {
			case <-ch:
			case <-time.After(wedgeBoundNow()):
				fail("WEDGE: a Monitor.Close() call never returned although the monitor is done and no callback is held")
			}
		}
		if c, dump := waitLibGoroutinesAtMost(before, wedgeBoundNow()); c > before {
			fail("%d library goroutines left after the monitor was done:\n%s", c-before, dump)
		}
		statCase("C16", hashString("monmodel;"+strings.Join(hist, ";")), len(pushed) >= 3, func() interface{} {
			return map[string]interface{}{"mode": "monitor over a harness-owned publisher", "history": hist, "callbacks": len(recs)}
		}, "monitor_model", "monitor_model_end_"+end, fmt.Sprintf("monitor_model_handler_blocks=%v", handlerBlocks))
	})
}
