//go:build verif

package verifharness

// C12 (continued) — "provided client List/Watch calls return once their
// context is cancelled": a client whose Watch() call hangs until then (a
// black-holed API server) satisfies the premise.  With every Watch call
// hanging, 0-4 further relists are applied (each one makes the controller
// reset its watcher while the previous connection attempt is still pending),
// then the shutdown trigger fires: Close() must return and Done() close in
// bounded time, for the controller and everything subscribed to it, every
// hanging Watch call must have been cancelled, and no library goroutine may
// be left.  Before the trigger every relist must be applied (C03: lists are
// the only source when the watch delivers nothing).

import (
	"context"
	"fmt"
	"strings"
	"testing"
	"time"

	"github.com/boz/kcache"
	metav1 "k8s.io/apimachinery/pkg/apis/meta/v1"
	"pgregory.net/rapid"
)

func TestC12_HungWatch(t *testing.T) {
	fam := treeFilterFamily()
	rapid.Check(t, func(t *rapid.T) {
		a := newFakeAPI()
		a.watchHang = true
		a.gated = true
		var hist []string
		h := func(format string, args ...interface{}) { hist = append(hist, fmt.Sprintf(format, args...)) }
		keys := [][2]string{{"a", "p"}, {"a", "q"}, {"b", "p"}, {"b", "q"}}
		mutate := func(n int) {
			for i := 0; i < n; i++ {
				k := rapid.SampledFrom(keys).Draw(t, "k")
				if a.has(k[0], k[1]) && rapid.IntRange(0, 3).Draw(t, "del") == 0 {
					a.del(k[0], k[1])
					h("del %s/%s", k[0], k[1])
				} else {
					l := drawLabels(t)
					rv := a.put(k[0], k[1], l)
					h("put %s/%s%s -> rv %d", k[0], k[1], labelsStr(l), rv)
				}
			}
		}
		mutate(rapid.IntRange(0, 4).Draw(t, "initial"))
		before, _ := libGoroutines()
		ctx, cancel := context.WithCancel(context.Background())
		defer cancel()
		plog := newPlog(rapid.Bool().Draw(t, "perturb"), rapid.Uint64().Draw(t, "pseed"))
		b := kcache.NewBuilder().Context(ctx).Log(plog).Client(a)
		b.Lister().RefreshPeriod(time.Duration(rapid.IntRange(1, 4).Draw(t, "periodMs")) * time.Millisecond)
		root, err := b.Create()
		if err != nil {
			t.Fatalf("create: %v", err)
		}
		defer func() { cancel(); go root.Close() }()
		fail := func(format string, args ...interface{}) {
			_, dump := libGoroutines()
			if len(dump) > 5000 {
				dump = dump[:5000]
			}
			t.Fatalf("C12 violation: %s\n  history: %s\n%s", fmt.Sprintf(format, args...), strings.Join(hist, "; "), dump)
		}
		type subr struct {
			name   string
			done   <-chan struct{}
			cache  kcache.CacheReader
			accept func(metav1.Object) bool
		}
		var subs []subr
		all := func(metav1.Object) bool { return true }
		for i := 0; i < rapid.IntRange(0, 3).Draw(t, "nsubs"); i++ {
			fi := rapid.SampledFrom([]int{0, 1, 2, 3, 5}).Draw(t, "f")
			switch rapid.SampledFrom([]string{"sub", "fsub", "fclone", "mon"}).Draw(t, "kind") {
			case "sub":
				x, err := root.Subscribe()
				if err != nil {
					fail("Subscribe: %v", err)
				}
				subs = append(subs, subr{"sub", x.Done(), x.Cache(), all})
			case "fsub":
				x, err := root.SubscribeWithFilter(fam[fi].build())
				if err != nil {
					fail("SubscribeWithFilter: %v", err)
				}
				subs = append(subs, subr{"fsub", x.Done(), x.Cache(), fam[fi].eval})
			case "fclone":
				x, err := root.CloneWithFilter(fam[fi].build())
				if err != nil {
					fail("CloneWithFilter: %v", err)
				}
				subs = append(subs, subr{"fclone", x.Done(), x.Cache(), fam[fi].eval})
			case "mon":
				m, err := kcache.NewMonitor(root, newCbLog().handler())
				if err != nil {
					fail("NewMonitor: %v", err)
				}
				subs = append(subs, subr{"mon", m.Done(), nil, nil})
			}
		}
		render := func(objs []metav1.Object, accept func(metav1.Object) bool) string {
			var out []string
			for _, o := range objs {
				if accept(o) {
					out = append(out, objKey(o)+"@"+o.GetResourceVersion())
				}
			}
			sortStrings(out)
			return fmt.Sprint(out)
		}
		relists := rapid.IntRange(0, 4).Draw(t, "relists")
		trigger := rapid.SampledFrom([]string{"close", "closeN", "cancel", "listerror"}).Draw(t, "trigger")
		for r := 0; r <= relists; r++ {
			req := a.awaitListWedge()
			if req == nil {
				fail("WEDGE: list #%d was never issued (every Watch call hangs; %d hanging now)", r+1, a.hungCount())
			}
			if r > 0 {
				mutate(rapid.IntRange(0, 3).Draw(t, "changes"))
			}
			snap := req.release(a, false)
			var now []metav1.Object
			for _, o := range snap.items {
				now = append(now, o)
			}
			h("list #%d released: %d objects", r+1, len(now))
			if r == 0 && !waitWedge(root.Ready()) {
				fail("WEDGE: the controller never became ready")
			}
			check := func(c kcache.CacheReader, who string, accept func(metav1.Object) bool) {
				want := render(now, accept)
				deadline := time.Now().Add(wedgeBoundNow())
				for {
					objs, err := c.List()
					if err != nil {
						fail("%s: List() failed on a running controller: %v", who, err)
					}
					if render(objs, all) == want {
						return
					}
					if time.Now().After(deadline) {
						setWedgeSeen()
						fail("WEDGE: %s: list #%d returned %s but the cache holds %s: the relist was never applied (Watch calls hanging: %d)", who, r+1, want, render(objs, all), a.hungCount())
					}
					time.Sleep(100 * time.Microsecond)
				}
			}
			check(root.Cache(), "controller", all)
			for _, s := range subs {
				if s.cache != nil {
					check(s.cache, s.name, s.accept)
				}
			}
		}
		hanging := a.hungCount()
		h("trigger %s with %d Watch calls hanging", trigger, hanging)
		closers := 0
		switch trigger {
		case "close":
			closers = 1
		case "closeN":
			closers = 3
		case "cancel":
			cancel()
		case "listerror":
			req := a.awaitListWedge()
			if req == nil {
				fail("WEDGE: no List call to fail")
			}
			req.fail(lfError)
		}
		closed := make(chan struct{}, closers)
		for i := 0; i < closers; i++ {
			go func() { root.Close(); closed <- struct{}{} }()
		}
		for i := 0; i < closers; i++ {
			select {
			case <-closed:
			case <-time.After(wedgeBoundNow()):
				setWedgeSeen()
				fail("WEDGE: Close() did not return (trigger %s; %d Watch calls hanging; the client honours its context)", trigger, a.hungCount())
			}
		}
		if !waitWedge(root.Done()) {
			fail("WEDGE: Done() of the controller never closed after %s", trigger)
		}
		for _, s := range subs {
			if !waitWedge(s.done) {
				fail("WEDGE: Done() of %s never closed after the controller was shut down by %s", s.name, trigger)
			}
		}
		if _, err := root.Subscribe(); err == nil {
			// allowed: a subscription that is itself shut down; not checked further here (C12 main test)
		}
		cancel()
		if c, dump := waitLibGoroutinesAtMost(before, wedgeBoundNow()); c > before {
			t.Fatalf("C12 violation: %d library goroutines left after shutdown by %s with hanging Watch calls:\n%s", c-before, trigger, dump)
		}
		deadline := time.Now().Add(wedgeBoundNow())
		for a.hungCount() > 0 {
			if time.Now().After(deadline) {
				fail("%d Watch calls are still hanging after the controller is done: their contexts were never cancelled", a.hungCount())
			}
			time.Sleep(100 * time.Microsecond)
		}
		statCase("C12", hashString("hung;"+strings.Join(hist, ";")), relists > 0, func() interface{} {
			return map[string]interface{}{"mode": "every Watch call hangs until its context is cancelled", "history": hist}
		}, "hung_watch", "hung_watch_trigger_"+trigger, fmt.Sprintf("hung_watch_relists=%d", relists))
	})
}
