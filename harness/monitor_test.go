//go:build verif

package verifharness

// Recording monitor handler (C10, C11, C12, C16).

import (
	"fmt"
	"sync"
	"sync/atomic"
	"time"

	"github.com/boz/kcache"
	metav1 "k8s.io/apimachinery/pkg/apis/meta/v1"
)

type cbRec struct {
	Kind string // init, create, update, delete
	Obj  metav1.Object
	Init []metav1.Object
}

func (c cbRec) String() string {
	if c.Kind == "init" {
		return "init" + fmt.Sprint(keyVersions(c.Init))
	}
	return c.Kind + " " + objStr(c.Obj)
}

type cbLog struct {
	mu        sync.Mutex
	recs      []cbRec // marker callbacks excluded
	ninit     int
	initAt    int // number of non-init callbacks (markers included) seen before the first init
	total     int
	nilObjs   int
	nilInit   int // nil entries in the listing handed to OnInitialize
	overlap   string
	afterDone string
	markSeen  int
	note      chan struct{}

	inflight int32
	doneSeen int32 // set by the harness once it has observed Done()
	delayNs  int64
	gate     chan struct{} // non-nil: callbacks block until closed
}

func newCbLog() *cbLog { return &cbLog{note: make(chan struct{}, 1), initAt: -1} }

func (c *cbLog) enter(kind string) {
	if atomic.AddInt32(&c.inflight, 1) > 1 {
		c.mu.Lock()
		if c.overlap == "" {
			c.overlap = "callback " + kind + " entered while another callback of the same monitor was still running"
		}
		c.mu.Unlock()
	}
	if atomic.LoadInt32(&c.doneSeen) != 0 {
		c.mu.Lock()
		if c.afterDone == "" {
			c.afterDone = "callback " + kind + " entered after the monitor's Done() had been observed closed"
		}
		c.mu.Unlock()
	}
	c.mu.Lock()
	g := c.gate
	c.mu.Unlock()
	if g != nil {
		<-g
	}
	if d := atomic.LoadInt64(&c.delayNs); d > 0 {
		time.Sleep(time.Duration(d))
	}
}

func (c *cbLog) leave() { atomic.AddInt32(&c.inflight, -1) }

func (c *cbLog) sawMarker(rv int) {
	if rv > c.markSeen {
		c.markSeen = rv
	}
	select {
	case c.note <- struct{}{}:
	default:
	}
}

func (c *cbLog) handler() kcache.Handler {
	one := func(kind string) func(metav1.Object) {
		return func(o metav1.Object) {
			c.enter(kind)
			defer c.leave()
			c.mu.Lock()
			defer c.mu.Unlock()
			c.total++
			if o == nil {
				// a typed monitor handed an object of another type calls back with nil: neither a crash nor a wrong object
				c.nilObjs++
				return
			}
			if o.GetNamespace() == markerNS {
				c.sawMarker(objVersion(o))
				return
			}
			c.recs = append(c.recs, cbRec{Kind: kind, Obj: o})
		}
	}
	b := kcache.BuildHandler().
		OnInitialize(func(objs []metav1.Object) {
			c.enter("init")
			defer c.leave()
			c.mu.Lock()
			defer c.mu.Unlock()
			if c.ninit == 0 {
				c.initAt = c.total
			}
			c.ninit++
			var keep []metav1.Object
			for _, o := range objs {
				if o != nil && o.GetNamespace() == markerNS {
					c.sawMarker(objVersion(o))
					continue
				}
				if o == nil {
					c.nilInit++
				}
				keep = append(keep, o)
			}
			c.recs = append(c.recs, cbRec{Kind: "init", Init: keep})
		}).
		OnCreate(one("create")).
		OnUpdate(one("update")).
		OnDelete(one("delete"))
	h := b.Create()
	// The builder then serves as the template of a second handler, which is never given to any
	// monitor: the monitor calls the callbacks of ITS handler, so this one must never hear anything.
	stray := func(kind string) {
		c.mu.Lock()
		if c.overlap == "" {
			c.overlap = "callback " + kind + " was delivered to a handler that no monitor was ever given (it was built, later, from the same HandlerBuilder as the monitor's handler)"
		}
		c.mu.Unlock()
	}
	b.OnInitialize(func([]metav1.Object) { stray("init") }).
		OnCreate(func(metav1.Object) { stray("create") }).
		OnUpdate(func(metav1.Object) { stray("update") }).
		OnDelete(func(metav1.Object) { stray("delete") }).
		Create()
	return h
}

func (c *cbLog) snapshot() (recs []cbRec, ninit, initAt int, overlap, afterDone string) {
	c.mu.Lock()
	defer c.mu.Unlock()
	return append([]cbRec(nil), c.recs...), c.ninit, c.initAt, c.overlap, c.afterDone
}

func (c *cbLog) totalCallbacks() int {
	c.mu.Lock()
	defer c.mu.Unlock()
	return c.total
}

func (c *cbLog) block() {
	c.mu.Lock()
	if c.gate == nil {
		c.gate = make(chan struct{})
	}
	c.mu.Unlock()
}

func (c *cbLog) unblock() {
	c.mu.Lock()
	if c.gate != nil {
		close(c.gate)
		c.gate = nil
	}
	c.mu.Unlock()
}

func (c *cbLog) blocked() bool {
	c.mu.Lock()
	defer c.mu.Unlock()
	return c.gate != nil
}

func (c *cbLog) waitMark(rv int, bound time.Duration) bool {
	deadline := time.Now().Add(bound)
	for {
		c.mu.Lock()
		seen := c.markSeen
		c.mu.Unlock()
		if seen >= rv {
			return true
		}
		remain := time.Until(deadline)
		if remain <= 0 {
			return false
		}
		tm := time.NewTimer(remain)
		select {
		case <-c.note:
		case <-tm.C:
		}
		tm.Stop()
	}
}

// attachMonitor creates a monitor node below publisher node p.
func (w *world) attachMonitor(p *node) *node { return w.attachMonitorOpt(p, false) }

// attachMonitorOpt: with blockedInit the handler blocks from its very first
// callback on (OnInitialize, if the publisher is ready), until cb.unblock().
func (w *world) attachMonitorOpt(p *node, blockedInit bool) *node {
	n := &node{kind: "mon", parent: p, filt: -1, cb: newCbLog()}
	if blockedInit {
		n.cb.block()
	}
	var m kcache.Monitor
	var err error
	if w.cfg.typed != "" {
		m, err = typedPkgs[w.cfg.typed].monitor(p.publisher(), n.cb.handler())
	} else {
		m, err = kcache.NewMonitor(p.publisher(), n.cb.handler())
	}
	if err != nil {
		w.fail("NewMonitor on live publisher %s failed: %v", p.path(), err)
	}
	n.mon = m
	w.addNode(n)
	w.h("attach %s kind=mon parent=%s", n.name, p.name)
	return n
}
