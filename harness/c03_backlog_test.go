//go:build verif

package verifharness

// C03 (continued) — "whatever went wrong" includes the controller being
// out-paced.  While the controller is kept busy (its controller-level filter
// blocks on a harness channel while it applies one watch event) the server
// emits a burst of 20..300 further events - below and above the capacity of
// the watcher's buffer - and at least one relist completes and waits to be
// consumed.  Then the controller is released and the server stays quiet.
// Whatever the watcher did with the backlog (kcache drops what does not fit
// and relies on the next relist), the cache must become equal to the server's
// objects, relisting must go on, and Close() must still work.  Several such
// cycles per case.

import (
	"context"
	"fmt"
	"strings"
	"sync"
	"testing"
	"time"

	"github.com/boz/kcache"
	"github.com/boz/kcache/filter"
	metav1 "k8s.io/apimachinery/pkg/apis/meta/v1"
	"pgregory.net/rapid"
)

func TestC03_Backlog(t *testing.T) {
	rapid.Check(t, func(t *rapid.T) {
		P := time.Duration(rapid.IntRange(1000, 5000).Draw(t, "periodUs")) * time.Microsecond
		cycles := rapid.IntRange(1, 3).Draw(t, "cycles")
		a := newFakeAPI()
		a.put("a", "p", nil)
		var hist []string
		h := func(format string, args ...interface{}) { hist = append(hist, fmt.Sprintf(format, args...)) }
		var mu sync.Mutex
		var gate chan struct{}
		entered := make(chan struct{}, 4)
		armed := ""
		blocker := filter.FN(func(o metav1.Object) bool {
			mu.Lock()
			g, hit := gate, armed != "" && o.GetName() == armed
			if hit {
				armed = ""
			}
			mu.Unlock()
			if hit {
				entered <- struct{}{}
				<-g
			}
			return true
		})
		ctx, cancel := context.WithCancel(context.Background())
		defer cancel()
		plog := newPlog(rapid.Bool().Draw(t, "perturb"), rapid.Uint64().Draw(t, "pseed"))
		b := kcache.NewBuilder().Context(ctx).Log(plog).Client(a).Filter(blocker)
		b.Lister().RefreshPeriod(P)
		root, err := b.Create()
		if err != nil {
			t.Fatalf("create: %v", err)
		}
		released := true
		defer func() {
			mu.Lock()
			if !released && gate != nil {
				close(gate)
			}
			mu.Unlock()
			cancel()
			go root.Close()
		}()
		fail := func(format string, args ...interface{}) {
			_, dump := libGoroutines()
			if len(dump) > 6000 {
				dump = dump[:6000]
			}
			t.Fatalf("C03 violation: %s\n  history: %s\n%s", fmt.Sprintf(format, args...), strings.Join(hist, "; "), dump)
		}
		if !waitWedge(root.Ready()) {
			fail("WEDGE: the controller never became ready")
		}
		h("period %v", P)
		keys := [][2]string{{"a", "p"}, {"a", "q"}, {"b", "p"}, {"b", "q"}, {"a", "r"}, {"c", "s"}}
		overBuffer, pendingResult := false, false
		for c := 0; c < cycles; c++ {
			// stall the controller inside the filter
			trig := fmt.Sprintf("trigger%d", c)
			mu.Lock()
			gate = make(chan struct{})
			armed = trig
			released = false
			mu.Unlock()
			a.put("t", trig, nil)
			select {
			case <-entered:
			case <-time.After(wedgeBoundNow()):
				fail("WEDGE: cycle %d: the watch event for %s never reached the controller", c, trig)
			}
			// the burst, while the controller is busy
			n := rapid.IntRange(20, 300).Draw(t, "burst")
			if n > 100 {
				overBuffer = true
			}
			for i := 0; i < n; i++ {
				k := keys[rapid.IntRange(0, len(keys)-1).Draw(t, "k")]
				if a.has(k[0], k[1]) && rapid.IntRange(0, 3).Draw(t, "del") == 0 {
					a.del(k[0], k[1])
				} else {
					a.put(k[0], k[1], drawLabels(t))
				}
			}
			h("cycle %d: controller busy in its filter; %d events emitted meanwhile (rv now %d)", c, n, a.rvNow())
			// let at least one relist complete while the controller is still busy (its result waits)
			lists := a.listCount()
			deadline := time.Now().Add(20*P + 200*time.Millisecond)
			for time.Now().Before(deadline) {
				a.mu.Lock()
				done := len(a.listCalls) > lists && a.listCalls[len(a.listCalls)-1].returned
				a.mu.Unlock()
				if done {
					pendingResult = true
					break
				}
				time.Sleep(P / 4)
			}
			if extra := rapid.IntRange(0, 3).Draw(t, "stallMorePeriods"); extra > 0 {
				time.Sleep(time.Duration(extra) * P)
			}
			// release; the server stays quiet
			mu.Lock()
			close(gate)
			released = true
			mu.Unlock()
			want := fmtContent(toMap(a.state()))
			converged := func(bound time.Duration) bool {
				deadline := time.Now().Add(bound)
				for {
					objs, err := root.Cache().List()
					if err != nil {
						fail("cycle %d: Cache().List() failed on a running controller: %v (Error() = %v)", c, err, root.Error())
					}
					m, msg := contentOf(objs)
					if msg != "" {
						fail("cycle %d: %s", c, msg)
					}
					if fmtContent(m) == want {
						return true
					}
					if time.Now().After(deadline) {
						return false
					}
					time.Sleep(P / 2)
				}
			}
			if !converged(wedgeBoundNow()) {
				if isWedgeSeen() || !converged(wedgeConfirm) {
					setWedgeSeen()
					objs, _ := root.Cache().List()
					m, _ := contentOf(objs)
					fail("WEDGE: cycle %d: the controller was busy while %d watch events and a relist result piled up; after it was released and the server went quiet the cache never became equal to the server: cache %s, server %s (List calls so far: %d, watcher drops logged: %d)", c, n, fmtContent(m), want, a.listCount(), plog.WatchDrops())
				}
				statSlow("harness")
			}
			// relisting goes on
			lists = a.listCount()
			deadline = time.Now().Add(wedgeBoundNow())
			for a.listCount() < lists+2 {
				if time.Now().After(deadline) {
					fail("WEDGE: cycle %d: relisting stopped after the backlog was worked off (%d List calls)", c, a.listCount())
				}
				time.Sleep(P / 2)
			}
			if isClosedCh(root.Done()) {
				fail("cycle %d: the controller shut down: %v", c, root.Error())
			}
			h("cycle %d: converged", c)
		}
		if !closeBounded(root) {
			fail("WEDGE: Close() of the controller did not return")
		}
		cancel()
		if n, dump := waitNoLibGoroutines(wedgeBound); n != 0 {
			t.Fatalf("C03 violation: %d library goroutines left after Close:\n%s", n, dump)
		}
		statCase("C03", hashString("backlog;"+strings.Join(hist, ";")), overBuffer && pendingResult, func() interface{} {
			return map[string]interface{}{"mode": "backlog while the controller is busy", "history": hist}
		}, "backlog", fmt.Sprintf("backlog_over_watcher_buffer=%v", overBuffer), fmt.Sprintf("relist_result_pending_at_release=%v", pendingResult))
		statExtraAdd("C03", "watcher_drops_logged_in_backlog_cases", plog.WatchDrops())
	})
}

func toMap(objs []metav1.Object) map[string]metav1.Object {
	m := map[string]metav1.Object{}
	for _, o := range objs {
		m[objKey(o)] = o
	}
	return m
}
