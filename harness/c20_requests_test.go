//go:build verif

package verifharness

// C20(c) — each typed client lists and watches the API resource of its own
// type in the requested namespace (all namespaces when none is given).
//
// kubernetes.NewForConfig against a loopback httptest server; for each of the
// 12 typed NewClient(cs, ns) with ns in {"", generated names}: the method,
// path and query of the List and the Watch request must equal the table
// written from the Kubernetes API conventions, and the List response must
// decode into that type's list.

import (
	"context"
	"fmt"
	"net/http"
	"net/http/httptest"
	"strings"
	"sync"
	"testing"
	"time"

	"github.com/boz/kcache/client"
	tdaemonset "github.com/boz/kcache/types/daemonset"
	tdeployment "github.com/boz/kcache/types/deployment"
	tevent "github.com/boz/kcache/types/event"
	tingress "github.com/boz/kcache/types/ingress"
	tjob "github.com/boz/kcache/types/job"
	tnode "github.com/boz/kcache/types/node"
	tpod "github.com/boz/kcache/types/pod"
	treplicaset "github.com/boz/kcache/types/replicaset"
	trc "github.com/boz/kcache/types/replicationcontroller"
	tsecret "github.com/boz/kcache/types/secret"
	tservice "github.com/boz/kcache/types/service"
	tstatefulset "github.com/boz/kcache/types/statefulset"
	"k8s.io/apimachinery/pkg/api/meta"
	metav1 "k8s.io/apimachinery/pkg/apis/meta/v1"
	"k8s.io/client-go/kubernetes"
	"k8s.io/client-go/rest"
	"pgregory.net/rapid"
)

type reqSpec struct {
	pkg        string
	prefix     string // /api/v1 or /apis/<group>/<version>
	resource   string
	kind       string // list kind
	apiVersion string
	namespaced bool
	newClient  func(kubernetes.Interface, string) client.Client
}

// the table, from the Kubernetes API conventions (group/version and plural of each kind)
var reqSpecs = []reqSpec{
	{"pod", "/api/v1", "pods", "PodList", "v1", true, tpod.NewClient},
	{"service", "/api/v1", "services", "ServiceList", "v1", true, tservice.NewClient},
	{"secret", "/api/v1", "secrets", "SecretList", "v1", true, tsecret.NewClient},
	{"node", "/api/v1", "nodes", "NodeList", "v1", false, tnode.NewClient},
	{"event", "/api/v1", "events", "EventList", "v1", true, tevent.NewClient},
	{"replicationcontroller", "/api/v1", "replicationcontrollers", "ReplicationControllerList", "v1", true, trc.NewClient},
	{"ingress", "/apis/networking.k8s.io/v1beta1", "ingresses", "IngressList", "networking.k8s.io/v1beta1", true, tingress.NewClient},
	{"replicaset", "/apis/apps/v1", "replicasets", "ReplicaSetList", "apps/v1", true, treplicaset.NewClient},
	{"deployment", "/apis/apps/v1", "deployments", "DeploymentList", "apps/v1", true, tdeployment.NewClient},
	{"daemonset", "/apis/apps/v1", "daemonsets", "DaemonSetList", "apps/v1", true, tdaemonset.NewClient},
	{"statefulset", "/apis/apps/v1", "statefulsets", "StatefulSetList", "apps/v1", true, tstatefulset.NewClient},
	{"job", "/apis/batch/v1", "jobs", "JobList", "batch/v1", true, tjob.NewClient},
}

type seenReq struct {
	method, path, query string
}

type reqEnv struct {
	mu      sync.Mutex
	seen    []seenReq
	current reqSpec
	// watchStatus != 0: watch requests are answered with this HTTP status and a Status body
	watchStatus int
	srv         *httptest.Server
	cs          kubernetes.Interface
}

func newReqEnv(t *testing.T) *reqEnv {
	e := &reqEnv{current: reqSpecs[0]}
	e.srv = httptest.NewServer(http.HandlerFunc(func(w http.ResponseWriter, r *http.Request) {
		e.mu.Lock()
		e.seen = append(e.seen, seenReq{r.Method, r.URL.Path, r.URL.RawQuery})
		spec := e.current
		e.mu.Unlock()
		w.Header().Set("Content-Type", "application/json")
		if r.URL.Query().Get("watch") == "true" || strings.Contains(r.URL.Path, "/watch/") {
			e.mu.Lock()
			code := e.watchStatus
			e.mu.Unlock()
			if code != 0 {
				// the watch endpoint refuses: an API status error
				w.WriteHeader(code)
				fmt.Fprintf(w, `{"kind":"Status","apiVersion":"v1","status":"Failure","message":"injected","reason":%q,"code":%d}`, http.StatusText(code), code)
				return
			}
			w.WriteHeader(200)
			if f, ok := w.(http.Flusher); ok {
				f.Flush()
			}
			return // an empty watch stream that ends at once
		}
		fmt.Fprintf(w, `{"kind":%q,"apiVersion":%q,"metadata":{"resourceVersion":"7"},"items":[{"metadata":{"name":"x","namespace":"n","resourceVersion":"3"}}]}`, spec.kind, spec.apiVersion)
	}))
	cs, err := kubernetes.NewForConfig(&rest.Config{Host: e.srv.URL})
	if err != nil {
		t.Fatalf("harness: clientset: %v", err)
	}
	e.cs = cs
	return e
}

// check issues one List and one Watch through the typed client and compares
// the requests the server saw with the table; returns a violation message.
func (e *reqEnv) check(spec reqSpec, ns, rv string) (string, []seenReq) {
	// A round trip that runs into the harness's own deadline says nothing about where the request
	// went (a time budget hit is inconclusive, never a violation): the check is repeated with a
	// longer deadline, and only a client that still does not complete within two minutes, at the
	// third attempt, is reported.
	var msg string
	var got []seenReq
	for _, budget := range []time.Duration{20 * time.Second, 60 * time.Second, 120 * time.Second} {
		var expired bool
		msg, got, expired = e.check1(spec, ns, rv, budget)
		if !expired {
			return msg, got
		}
		statSlow("harness-http")
	}
	return msg, got
}

func (e *reqEnv) check1(spec reqSpec, ns, rv string, budget time.Duration) (msg string, got []seenReq, expired bool) {
	ctx, cancel := context.WithTimeout(context.Background(), budget)
	defer cancel()
	msg, got = e.checkCtx(ctx, spec, ns, rv)
	return msg, got, msg != "" && ctx.Err() != nil
}

func (e *reqEnv) checkCtx(ctx context.Context, spec reqSpec, ns, rv string) (string, []seenReq) {
	e.mu.Lock()
	e.current = spec
	e.seen = nil
	e.mu.Unlock()
	c := spec.newClient(e.cs, ns)
	obj, err := c.List(ctx, metav1.ListOptions{})
	if err != nil {
		return fmt.Sprintf("%s client, namespace %q: List failed against a server that serves %s: %v", spec.pkg, ns, spec.kind, err), nil
	}
	items, err := meta.ExtractList(obj)
	if err != nil || len(items) != 1 {
		return fmt.Sprintf("%s client: the List response did not decode into a list with one item: %v (%T)", spec.pkg, err, obj), nil
	}
	if !typedPkgs[spec.pkg].isType(items[0].(metav1.Object)) {
		return fmt.Sprintf("%s client: listed item decoded as %T", spec.pkg, items[0]), nil
	}
	if lrv, _ := meta.ListAccessor(obj); lrv == nil || lrv.GetResourceVersion() != "7" {
		return fmt.Sprintf("%s client: list resourceVersion lost", spec.pkg), nil
	}
	wi, err := c.Watch(ctx, metav1.ListOptions{ResourceVersion: rv, Watch: true})
	if err != nil {
		return fmt.Sprintf("%s client, namespace %q: Watch failed: %v", spec.pkg, ns, err), nil
	}
	wi.Stop()
	// the same client instance is used again, as the controller does on every relist and reconnect
	rv2 := rv + "7"
	if _, err := c.List(ctx, metav1.ListOptions{}); err != nil {
		return fmt.Sprintf("%s client, namespace %q: second List failed: %v", spec.pkg, ns, err), nil
	}
	// ... this time by a direct caller, client-go style: Watch() is a watch whatever the options' own
	// Watch field says
	wi2, err := c.Watch(ctx, metav1.ListOptions{ResourceVersion: rv2})
	if err != nil {
		return fmt.Sprintf("%s client, namespace %q: second Watch failed: %v", spec.pkg, ns, err), nil
	}
	wi2.Stop()
	e.mu.Lock()
	got := append([]seenReq(nil), e.seen...)
	e.mu.Unlock()
	if len(got) != 4 {
		return fmt.Sprintf("%s client: expected list, watch, list, watch; the server saw %v", spec.pkg, got), got
	}
	nsPart := ""
	if ns != "" {
		nsPart = "/namespaces/" + ns
	}
	wantList := seenReq{"GET", spec.prefix + nsPart + "/" + spec.resource, ""}
	if got[0] != wantList {
		return fmt.Sprintf("%s client, namespace %q: list request %v, expected %v", spec.pkg, ns, got[0], wantList), got
	}
	wantWatchPath := spec.prefix + "/watch" + nsPart + "/" + spec.resource
	if got[1].method != "GET" || got[1].path != wantWatchPath {
		return fmt.Sprintf("%s client, namespace %q: watch request %s %s, expected GET %s", spec.pkg, ns, got[1].method, got[1].path, wantWatchPath), got
	}
	if got[2] != wantList {
		return fmt.Sprintf("%s client, namespace %q: second list request of the same client %v, expected %v", spec.pkg, ns, got[2], wantList), got
	}
	for i, want := range map[int]string{1: rv, 3: rv2} {
		if got[i].method != "GET" || got[i].path != wantWatchPath {
			return fmt.Sprintf("%s client, namespace %q: watch request %s %s, expected GET %s", spec.pkg, ns, got[i].method, got[i].path, wantWatchPath), got
		}
		parts := strings.Split(got[i].query, "&")
		q := map[string]bool{}
		for _, kv := range parts {
			q[kv] = true
		}
		if i == 3 {
			// called without the Watch option: the path makes it a watch; watch=true may or may not be added
			if !q["resourceVersion="+want] || len(parts) > 2 || (len(parts) == 2 && !q["watch=true"]) {
				return fmt.Sprintf("%s client: query of the watch request made without the Watch option is %q, expected resourceVersion=%s (and at most watch=true)", spec.pkg, got[i].query, want), got
			}
			continue
		}
		if !q["watch=true"] || !q["resourceVersion="+want] || len(parts) != 2 {
			return fmt.Sprintf("%s client: query of watch request #%d of one client instance is %q, expected exactly watch=true&resourceVersion=%s", spec.pkg, (i+1)/2, got[i].query, want), got
		}
	}
	return "", got
}

// checkWatchRefused: the server refuses the watch with an API status error.
// Watch() must fail, and the only request the server may have seen is the
// canonical watch request: a typed client has exactly one way of watching its
// resource in its namespace.
func (e *reqEnv) checkWatchRefused(spec reqSpec, ns string, code int) (string, []seenReq) {
	var msg string
	var got []seenReq
	for _, budget := range []time.Duration{20 * time.Second, 60 * time.Second, 120 * time.Second} {
		var expired bool
		msg, got, expired = e.checkWatchRefused1(spec, ns, code, budget)
		if !expired {
			return msg, got
		}
		statSlow("harness-http")
	}
	return msg, got
}

func (e *reqEnv) checkWatchRefused1(spec reqSpec, ns string, code int, budget time.Duration) (msg string, got []seenReq, expired bool) {
	ctx, cancel := context.WithTimeout(context.Background(), budget)
	defer cancel()
	msg, got = e.checkWatchRefusedCtx(ctx, spec, ns, code)
	return msg, got, ctx.Err() != nil
}

func (e *reqEnv) checkWatchRefusedCtx(ctx context.Context, spec reqSpec, ns string, code int) (string, []seenReq) {
	e.mu.Lock()
	e.current = spec
	e.seen = nil
	e.watchStatus = code
	e.mu.Unlock()
	defer func() {
		e.mu.Lock()
		e.watchStatus = 0
		e.mu.Unlock()
	}()
	c := spec.newClient(e.cs, ns)
	wi, err := c.Watch(ctx, metav1.ListOptions{ResourceVersion: "5", Watch: true})
	if err == nil {
		wi.Stop()
	}
	e.mu.Lock()
	got := append([]seenReq(nil), e.seen...)
	e.mu.Unlock()
	nsPart := ""
	if ns != "" {
		nsPart = "/namespaces/" + ns
	}
	// the two spellings the API offers for "watch this resource in this namespace"
	wantWatchPath := spec.prefix + "/watch" + nsPart + "/" + spec.resource
	altWatchPath := spec.prefix + nsPart + "/" + spec.resource
	for _, r := range got {
		if r.method != "GET" || (r.path != wantWatchPath && !(r.path == altWatchPath && strings.Contains(r.query, "watch=true"))) {
			return fmt.Sprintf("%s client, namespace %q: the watch endpoint answered %d; the client then issued %s %s?%s - it may only ever watch %s in that namespace (%s or %s?watch=true)", spec.pkg, ns, code, r.method, r.path, r.query, spec.resource, wantWatchPath, altWatchPath), got
		}
	}
	if err == nil {
		return fmt.Sprintf("%s client, namespace %q: the watch endpoint answered %d but Watch() reported success (requests: %v)", spec.pkg, ns, code, got), got
	}
	if len(got) == 0 {
		return fmt.Sprintf("%s client: Watch() failed without any request", spec.pkg), got
	}
	return "", got
}

// TestC20_RequestsAll: all 12 typed clients x {all namespaces, one namespace}.
func TestC20_RequestsAll(t *testing.T) {
	e := newReqEnv(t)
	defer e.srv.Close()
	n := 0
	for _, spec := range reqSpecs {
		for _, ns := range []string{"", "team-a"} {
			if ns != "" && !spec.namespaced {
				continue
			}
			msg, got := e.check(spec, ns, "42")
			id := fmt.Sprintf("requests %s ns=%q", spec.pkg, ns)
			if msg != "" {
				writeEnumReplay(t, "C20", "TestC20_RequestsAll", id, msg)
				t.Fatalf("C20 violation: %s", msg)
			}
			n++
			statCase("C20", hashString(id), true, func() interface{} {
				return map[string]interface{}{"mode": "requests", "type": spec.pkg, "namespace": ns, "list": got[0].path, "watch": got[1].path + "?" + got[1].query}
			}, "requests", "requests_"+spec.pkg)
			for _, code := range []int{403, 404, 405, 410, 500} {
				if msg, _ := e.checkWatchRefused(spec, ns, code); msg != "" {
					writeEnumReplay(t, "C20", "TestC20_RequestsAll", fmt.Sprintf("%s refused %d", id, code), msg)
					t.Fatalf("C20 violation: %s", msg)
				}
				statLabel("C20", "requests_watch_refused_checked", 1)
			}
		}
	}
	statExhaustive("C20", fmt.Sprintf("requests: all 12 typed clients x {all namespaces, one namespace} (%d list/watch pairs) against a loopback API server", n))
}

// TestC20_Requests: random types, namespaces and resource versions.
func TestC20_Requests(t *testing.T) {
	e := newReqEnv(t)
	defer e.srv.Close()
	rapid.Check(t, func(t *rapid.T) {
		spec := rapid.SampledFrom(reqSpecs).Draw(t, "type")
		ns := ""
		if spec.namespaced && rapid.IntRange(0, 3).Draw(t, "hasns") > 0 {
			ns = rapid.StringMatching(`[a-z]([a-z0-9-]{0,8}[a-z0-9])?`).Draw(t, "ns")
		}
		rv := fmt.Sprint(rapid.IntRange(0, 100000).Draw(t, "rv"))
		msg, got := e.check(spec, ns, rv)
		if msg != "" {
			t.Fatalf("C20 violation: %s", msg)
		}
		id := fmt.Sprintf("requests %s ns=%q", spec.pkg, ns)
		statCase("C20", hashString(id+rv), true, func() interface{} {
			return map[string]interface{}{"mode": "requests", "type": spec.pkg, "namespace": ns, "list": got[0].path, "watch": got[1].path + "?" + got[1].query}
		}, "requests", "requests_"+spec.pkg)
	})
}
