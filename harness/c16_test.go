//go:build verif

package verifharness

// C16 — monitor callbacks: initialize once first, then one callback per
// event, serially; nothing after Done; nothing at all if the publisher shuts
// down before becoming ready.
//
// A monitor M and a witness subscription W are created back-to-back on the
// same publisher at a quiescent point (or before the gated first list is
// released).  Oracle: OnInitialize at most once and before any other
// callback, with the publisher's cache content at readiness; the callbacks
// after it are, one for one and in order, the events W received (same type,
// same object) — a prefix of them when M is closed mid-stream, an in-order
// subsequence when the handler was blocked for more than the buffer holds;
// callbacks never overlap; no callback is entered after the harness has
// observed Done().

import (
	"fmt"
	"strings"
	"sync/atomic"
	"testing"
	"time"

	"github.com/boz/kcache"
	"pgregory.net/rapid"
)

func TestC16_Monitor(t *testing.T) {
	burst := kcache.EventBufsiz / 4
	rapid.Check(t, func(t *rapid.T) {
		closeAt := rapid.SampledFrom([]string{"before-ready", "before-ready-root", "mid-stream", "after", "never"}).Draw(t, "closeAt")
		handlerMode := rapid.SampledFrom([]string{"fast", "micro", "slow", "blocked"}).Draw(t, "handler")
		pubKind := rapid.SampledFrom([]string{"root", "clone", "fclone", "fclone"}).Draw(t, "publisher")
		gate := strings.HasPrefix(closeAt, "before-ready") || rapid.Bool().Draw(t, "gateFirst")
		w := newWorld(t, worldCfg{prop: "C16", rootFilter: -1, gateFirst: gate, perturb: rapid.Bool().Draw(t, "perturb"), seed: rapid.Uint64().Draw(t, "pseed")})
		defer w.abort()
		keys := [][2]string{{"a", "p"}, {"a", "q"}, {"b", "p"}, {"b", "q"}, {"a", "r"}}
		put := func() {
			k := rapid.SampledFrom(keys).Draw(t, "k")
			if w.api.has(k[0], k[1]) && rapid.IntRange(0, 3).Draw(t, "del") == 0 {
				w.del(k[0], k[1])
			} else {
				w.put(k[0], k[1], drawLabels(t))
			}
		}
		for i := 0; i < rapid.IntRange(0, 6).Draw(t, "pre"); i++ {
			put()
		}
		p := w.nodes[0]
		switch pubKind {
		case "clone":
			p = w.attach(p, "clone", 0)
		case "fclone":
			p = w.attach(p, "fclone", rapid.SampledFrom([]int{0, 1, 3, 5, 7}).Draw(t, "pf"))
		}
		if w.rootReady {
			w.checkQuiet()
		}
		// monitor and witness, back to back
		initBlocked := w.rootReady && handlerMode != "blocked" && rapid.IntRange(0, 3).Draw(t, "initBlocked") == 0
		m := w.attachMonitorOpt(p, initBlocked)
		var initAtAttach []string
		if initBlocked {
			// OnInitialize is entered (listing taken) and hangs there; only then does the witness start
			deadline := time.Now().Add(wedgeBoundNow())
			for atomic.LoadInt32(&m.cb.inflight) == 0 {
				if time.Now().After(deadline) {
					w.fail("WEDGE: OnInitialize of a monitor on a ready publisher was never called")
				}
				time.Sleep(20 * time.Microsecond)
			}
			initAtAttach = w.expected(p)
			w.h("OnInitialize of the monitor blocks")
		}
		wit := w.attach(p, "sub", 0)
		if initBlocked {
			// events - including same-version Deletes/Creates synthesised by a Refilter of the publisher -
			// queue up behind the running OnInitialize: each gets its callback afterwards
			for i := 0; i < rapid.IntRange(0, 8).Draw(t, "duringInit"); i++ {
				put()
			}
			if pubKind == "fclone" {
				for i := 0; i < rapid.IntRange(0, 2).Draw(t, "refiltersDuringInit"); i++ {
					w.refilter(p, rapid.SampledFrom([]int{0, 1, 2, 3, 5, 7}).Draw(t, "pfi"))
					w.checkQuiet()
				}
			}
			w.checkQuiet()
			m.cb.unblock()
			w.h("OnInitialize released")
			w.barrierRetry()
		}
		switch handlerMode {
		case "micro":
			atomic.StoreInt64(&m.cb.delayNs, int64(rapid.IntRange(1, 30).Draw(t, "us"))*1000)
		case "slow":
			atomic.StoreInt64(&m.cb.delayNs, int64(rapid.IntRange(100, 400).Draw(t, "us"))*1000)
		}
		observeDone := func(what string) {
			w.waitFor(m.mon.Done(), "monitor Done() after "+what)
			atomic.StoreInt32(&m.cb.doneSeen, 1)
			if n := atomic.LoadInt32(&m.cb.inflight); n > 0 {
				w.fail("the monitor's Done() is closed (%s) while %d callback(s) are still running", what, n)
			}
		}
		var initWant []string
		closed := false
		if !w.rootReady {
			switch closeAt {
			case "before-ready":
				w.h("close monitor before its publisher is ready")
				if !closeMonitorBounded(m.mon, m.cb) {
					w.fail("WEDGE: Monitor.Close() did not return (before the publisher was ready)")
				}
				w.markClosed(m)
				observeDone("Close before the publisher was ready")
				closed = true
				w.releaseFirst(lfNone)
			case "before-ready-root":
				// the publisher shuts down before becoming ready: no callback at all
				w.h("close the controller before it is ready")
				done := make(chan struct{})
				go func() { w.root.Close(); close(done) }()
				w.waitFor(done, "root Close() before ready")
				observeDone("the publisher shut down before becoming ready")
				recs, ninit, _, _, _ := m.cb.snapshot()
				if ninit != 0 || len(recs) != 0 || m.cb.totalCallbacks() != 0 {
					w.fail("the publisher shut down before becoming ready but the monitor ran callbacks: %v", recs)
				}
				w.finished = true
				if c, dump := waitNoLibGoroutines(wedgeBound); c != 0 {
					w.fail("%d library goroutines left:\n%s", c, dump)
				}
				w.cancel()
				statCase("C16", hashString("before-ready-root"+pubKind+strings.Join(w.hist, ";")), true, func() interface{} {
					return map[string]interface{}{"close": closeAt, "publisher": pubKind, "history": append([]string(nil), w.hist...)}
				}, "close_"+closeAt)
				return
			default:
				w.releaseFirst(lfNone)
			}
		}
		w.checkQuiet()
		initWant = w.expected(p)
		if initBlocked {
			initWant = initAtAttach
		}
		if !closed {
			// init must have happened by now (the barrier passed through the monitor's handler)
			recs, ninit, initAt, _, _ := m.cb.snapshot()
			if ninit != 1 {
				w.fail("after the publisher became ready and a barrier passed, OnInitialize ran %d times", ninit)
			}
			if initAt != 0 {
				w.fail("OnInitialize ran after %d other callbacks", initAt)
			}
			if got := keyVersions(recs[0].Init); !sameStrings(got, initWant) {
				w.fail("OnInitialize received %v, the publisher's cache at readiness held %v", got, initWant)
			}
		}
		everBlocked := false
		if handlerMode == "blocked" && !closed {
			everBlocked = true
			m.cb.block()
			w.h("handler of the monitor blocks")
		}
		// the stream
		total := rapid.IntRange(0, 300).Draw(t, "events")
		closeAfter := -1
		if closeAt == "mid-stream" && !closed {
			closeAfter = rapid.IntRange(0, total).Draw(t, "closeAfter")
		}
		witBase := wit.eventCount()
		if initBlocked {
			witBase = 0 // the witness was created after the monitor's listing: all its events count
		}
		witAtClose := -1
		overflow := false
		sinceBlock := 0
		doClose := func(what string) {
			w.h("close monitor (%s)", what)
			closeReturned := make(chan struct{})
			go func() { m.mon.Close(); close(closeReturned) }()
			defer func() {
				select {
				case <-closeReturned:
				case <-time.After(wedgeBoundNow()):
					setWedgeSeen()
					w.fail("WEDGE: Monitor.Close() (%s) did not return although its handler is not blocked any more and Done() is closed", what)
				}
			}()
			w.markClosed(m)
			if m.cb.blocked() {
				// Done must not close while a callback is still running inside the blocked handler
				hold := time.Duration(rapid.IntRange(0, 3000).Draw(t, "holdus")) * time.Microsecond
				inCallback := atomic.LoadInt32(&m.cb.inflight) > 0
				tm := time.NewTimer(hold)
				select {
				case <-m.mon.Done():
					if inCallback && atomic.LoadInt32(&m.cb.inflight) > 0 {
						w.fail("the monitor's Done() closed while a callback was still running (handler blocked inside it)")
					}
				case <-tm.C:
				}
				tm.Stop()
				m.cb.unblock()
			}
			observeDone(what)
			closed = true
		}
		sent := 0
		for sent < total {
			n := burst
			if total-sent < n {
				n = total - sent
			}
			for i := 0; i < n; i++ {
				if sent == closeAfter && !closed {
					doClose("mid-stream")
				}
				put()
				sent++
				if m.cb.blocked() {
					sinceBlock++
				}
			}
			if sinceBlock+2*(sent/burst+2) > kcache.EventBufsiz {
				overflow = true
			}
			w.checkQuiet()
			if pubKind == "fclone" && rapid.IntRange(0, 1).Draw(t, "refilterPublisher") == 0 {
				// the publisher's own filter changes: objects leave and re-enter its view with
				// unchanged versions (Delete, later Create of the same version): one callback each
				w.refilter(p, rapid.SampledFrom([]int{0, 1, 2, 3, 5, 7}).Draw(t, "pf2"))
				w.checkQuiet()
			}
			if m.cb.blocked() && rapid.IntRange(0, 5).Draw(t, "unblock") == 0 {
				m.cb.unblock()
				w.h("handler released")
				w.barrierRetry()
				sinceBlock = 0
			}
		}
		if sent == closeAfter && !closed {
			doClose("mid-stream (end)")
		}
		if m.cb.blocked() {
			m.cb.unblock()
			w.h("handler released")
		}
		if !closed {
			w.barrierRetry()
		}
		w.checkQuiet()
		if closeAt == "after" && !closed {
			witAtClose = wit.eventCount() - witBase
			doClose("after the stream")
			// later traffic must not reach the handler
			for i := 0; i < 5; i++ {
				put()
			}
			w.checkQuiet()
		}
		if everBlocked && w.plog.Overruns() > 0 {
			// the handler was blocked and the library logged a buffer overrun: events were dropped by design
			// (Refilters of the publisher and barrier markers count against the buffer as well, which the
			// estimate above does not cover: DESIGN.md 10.14)
			overflow = true
		}
		// judge the callback log against the witness
		recs, ninit, initAt, overlap, afterDone := m.cb.snapshot()
		if overlap != "" {
			w.fail("%s", overlap)
		}
		if afterDone != "" {
			w.fail("%s", afterDone)
		}
		if ninit > 1 {
			w.fail("OnInitialize ran %d times", ninit)
		}
		if ninit == 1 && initAt != 0 {
			w.fail("OnInitialize ran after %d other callbacks", initAt)
		}
		var cbs []string
		for _, r := range recs {
			if r.Kind == "init" {
				continue
			}
			if ninit == 0 {
				w.fail("callback %s ran although OnInitialize never did", r)
			}
			cbs = append(cbs, fmt.Sprintf("%s %s@%s", r.Kind, objKey(r.Obj), r.Obj.GetResourceVersion()))
		}
		wevs := renderEvs(wit.eventsFrom(witBase))
		switch {
		case closeAt == "before-ready":
			if ninit != 0 || len(cbs) != 0 {
				w.fail("monitor closed before its publisher was ready but callbacks ran: init=%d others=%v", ninit, cbs)
			}
		case overflow:
			if ok, at := isSubsequence(cbs, wevs); !ok {
				w.fail("callbacks of a monitor whose handler was blocked are not an in-order subsequence of the events: element %d (%s)", at, cbs[at])
			}
		case closed && closeAt == "mid-stream":
			if len(cbs) > len(wevs) || !sameStrings(cbs, wevs[:len(cbs)]) {
				w.fail("callbacks of a monitor closed mid-stream are not a prefix of the event sequence: %d callbacks, tail %v; witness has %d events, around there %v", len(cbs), tail(cbs, 4), len(wevs), window(wevs, len(cbs)-1))
			}
		default:
			cmp := wevs
			if witAtClose >= 0 {
				// closed at a quiescent point: every earlier event had its callback, no later one has
				cmp = wevs[:witAtClose]
			}
			if !sameStrings(cbs, cmp) {
				w.fail("callbacks are not one-for-one with the events of the witness subscription: %d callbacks vs %d events; %s", len(cbs), len(cmp), firstDiff(cbs, cmp))
			}
			// same objects, not just same rendering
			j := 0
			wrecs := wit.eventsFrom(witBase)
			for _, r := range recs {
				if r.Kind == "init" {
					continue
				}
				if j < len(wrecs) && r.Obj != wrecs[j].Obj {
					w.fail("callback %d carries a different object than the event it stands for (%s)", j, objStr(r.Obj))
				}
				j++
			}
		}
		w.finish()
		types := map[string]bool{}
		for _, c := range cbs {
			types[strings.Fields(c)[0]] = true
		}
		nt := len(cbs) >= 20 && len(types) == 3 && (handlerMode == "slow" || handlerMode == "blocked" || closeAt == "mid-stream")
		hist := w.hist
		if len(hist) > 30 {
			hist = append(append([]string(nil), hist[:25]...), fmt.Sprintf("... (%d more)", len(w.hist)-25))
		}
		statCase("C16", hashString(strings.Join(w.hist, ";")), nt, func() interface{} {
			return map[string]interface{}{"close": closeAt, "handler": handlerMode, "publisher": pubKind, "events": total, "callbacks": len(cbs), "history_head": hist}
		}, "close_"+closeAt, "handler_"+handlerMode, "publisher_"+pubKind, fmt.Sprintf("overflow=%v", overflow), fmt.Sprintf("events_queued_during_OnInitialize=%v", initBlocked))
	})
}

func firstDiff(a, b []string) string {
	for i := 0; i < len(a) && i < len(b); i++ {
		if a[i] != b[i] {
			return fmt.Sprintf("position %d: %q vs %q", i, a[i], b[i])
		}
	}
	return fmt.Sprintf("lengths %d vs %d (tails %v / %v)", len(a), len(b), tail(a, 3), tail(b, 3))
}
