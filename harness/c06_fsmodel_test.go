//go:build verif

package verifharness

// C06/C08 (continued) — the filter subscription over a parent the harness
// owns (hook kcache.VerifNewFilterSubscription).
//
// In the tree harness the windows that matter for a filtered node - a parent
// event published after the node listed its parent but before it became
// ready, an event still unread in its inbox when it lists, a Refilter that
// lists while events are arriving - are reached only by racing real
// goroutines.  Here the parent is a fake kcache.Subscription: the harness
// closes its Ready(), feeds its Events() channel and answers Cache().List(),
// and it can hold a List() call of the node under test at a gate, publish
// events meanwhile, and let the call return the snapshot taken at call time
// or at release time.  The parent honours the one contract a real parent
// gives: an event is in the channel no later than its effect is visible in the
// cache.  Every such interleaving is therefore produced deterministically.
//
// Oracle after every operation (marker barrier through the node): readiness
// == parent ready and (not for-filter or filter supplied); cache == current
// filter applied to the parent's state, at the parent's versions; no event
// before Ready(); once a baseline could be taken with nothing in flight, the
// strict mirror of its events equals its cache.

import (
	"fmt"
	"os"
	"strconv"
	"strings"
	"sync"
	"sync/atomic"
	"testing"
	"time"

	"github.com/boz/kcache"
	"github.com/boz/kcache/filter"
	metav1 "k8s.io/apimachinery/pkg/apis/meta/v1"
	"pgregory.net/rapid"
)

type fsParent struct {
	mu      sync.Mutex
	state   map[string]metav1.Object
	rv      int
	evch    chan kcache.Event
	readych chan struct{}
	donech  chan struct{}
	closes  int32

	closeTerminates bool // Close() ends the subscription (monitor model); otherwise it is only counted
	terminated      bool

	listCalls int
	removed   map[string]metav1.Object // per key, the object most recently removed
	lastList  []metav1.Object          // what the most recent List() call returned
	listErr   error                    // the next List() call fails with this error
	gate      chan struct{}            // non-nil: the next List() call blocks until it is closed
	atCall    bool                     // ... and returns the snapshot taken when it was called (else: when released)
	onList    chan int
}

func newFsParent() *fsParent {
	return &fsParent{state: map[string]metav1.Object{}, evch: make(chan kcache.Event, 8192), readych: make(chan struct{}), donech: make(chan struct{}), onList: make(chan int, 64)}
}

func (p *fsParent) Cache() kcache.CacheReader   { return fsParentCache{p} }
func (p *fsParent) Ready() <-chan struct{}      { return p.readych }
func (p *fsParent) Events() <-chan kcache.Event { return p.evch }
func (p *fsParent) Close() {
	atomic.AddInt32(&p.closes, 1)
	if p.closeTerminates {
		p.terminate()
	}
}

// terminate: what a real subscription does when it ends - Events() closed
// first, Done() right after.
func (p *fsParent) terminate() {
	p.mu.Lock()
	defer p.mu.Unlock()
	if !p.terminated {
		p.terminated = true
		close(p.evch)
		close(p.donech)
	}
}
func (p *fsParent) Done() <-chan struct{} { return p.donech }
func (p *fsParent) Error() error          { return nil }

type fsParentCache struct{ p *fsParent }

func (c fsParentCache) snapshotLocked() []metav1.Object {
	out := make([]metav1.Object, 0, len(c.p.state))
	for _, o := range c.p.state {
		out = append(out, o)
	}
	return out
}

func (c fsParentCache) List() ([]metav1.Object, error) {
	p := c.p
	p.mu.Lock()
	p.listCalls++
	k := p.listCalls
	g, atCall := p.gate, p.atCall
	p.gate = nil
	snap := c.snapshotLocked()
	lerr := p.listErr
	p.listErr = nil
	p.mu.Unlock()
	select {
	case p.onList <- k:
	default:
	}
	if lerr != nil {
		// the parent's cache has stopped (its Events() channel is still open): what a parent in the
		// middle of shutting down answers
		if g != nil {
			<-g
		}
		return nil, lerr
	}
	if g != nil {
		<-g
		if !atCall {
			p.mu.Lock()
			snap = c.snapshotLocked()
			p.mu.Unlock()
		}
	}
	p.mu.Lock()
	p.lastList = snap
	p.mu.Unlock()
	return snap, nil
}

func (c fsParentCache) Get(ns, name string) (metav1.Object, error) {
	c.p.mu.Lock()
	defer c.p.mu.Unlock()
	return c.p.state[ns+"/"+name], nil
}

func (c fsParentCache) GetObject(o metav1.Object) (metav1.Object, error) {
	return c.Get(o.GetNamespace(), o.GetName())
}

// put / del: the parent applies a change and publishes the event, atomically.
func (p *fsParent) put(ns, name string, labels map[string]string) int {
	p.mu.Lock()
	defer p.mu.Unlock()
	p.rv++
	o := mkPod(ns, name, strconv.Itoa(p.rv), labels)
	typ := kcache.EventTypeCreate
	if _, ok := p.state[ns+"/"+name]; ok {
		typ = kcache.EventTypeUpdate
	}
	p.state[ns+"/"+name] = o
	if !p.terminated {
		p.evch <- kcache.NewEvent(typ, o)
	}
	return p.rv
}

func (p *fsParent) del(ns, name string) bool {
	p.mu.Lock()
	defer p.mu.Unlock()
	o, ok := p.state[ns+"/"+name]
	if !ok {
		return false
	}
	delete(p.state, ns+"/"+name)
	if p.removed == nil {
		p.removed = map[string]metav1.Object{}
	}
	p.removed[ns+"/"+name] = o
	if !p.terminated {
		p.evch <- kcache.NewEvent(kcache.EventTypeDelete, o) // like the cache: the Delete carries the object it held
	}
	return true
}

// fsChooser abstracts the source of the choices of one model case: rapid's
// generators (random search, shrinking) or an odometer over the whole choice
// tree (bounded-exhaustive enumeration).
type fsChooser interface {
	intn(label string, lo, hi int) int // inclusive bounds
}

type fsRapidChooser struct{ t *rapid.T }

func (c fsRapidChooser) intn(label string, lo, hi int) int {
	return rapid.IntRange(lo, hi).Draw(c.t, label)
}

// fsEnumChooser replays a vector of choices, extends it with the lowest value
// of every further choice, and records the bounds so that the driver can
// advance it like an odometer.
type fsEnumChooser struct {
	vec    []int
	bounds [][2]int
	pos    int
}

func (c *fsEnumChooser) intn(label string, lo, hi int) int {
	if c.pos < len(c.vec) {
		v := c.vec[c.pos]
		c.bounds = append(c.bounds, [2]int{lo, hi})
		c.pos++
		return v
	}
	c.vec = append(c.vec, lo)
	c.bounds = append(c.bounds, [2]int{lo, hi})
	c.pos++
	return lo
}

// next advances the odometer; false when the tree is exhausted.
func (c *fsEnumChooser) next() bool {
	for i := len(c.vec) - 1; i >= 0; i-- {
		if c.vec[i] < c.bounds[i][1] {
			c.vec = append(c.vec[:i:i], c.vec[i]+1)
			c.bounds, c.pos = nil, 0
			return true
		}
	}
	return false
}

type fsCfg struct {
	keys               [][2]string
	labelSets          []map[string]string
	filters            []int // indexes into the tree filter family
	minSteps, maxSteps int
	maxInitial         int
	maxBurst           int
	maxDuring          int
	delOneIn           int // a publish is a delete with probability 1/delOneIn
	listFailOneIn      int // 0: never; else a listing step fails with probability 1/listFailOneIn
	readmitOneIn       int // 0: never; else a publish re-announces a removed object unchanged with this probability
}

// fsModelProp: the model covers the filtered-view property (C06) and the
// readiness property (C08) of the same component; the driver runs it once for
// each and tells it which one it reports under.
func fsModelProp() string {
	if p := os.Getenv("VERIF_FSMODEL_PROP"); p != "" {
		return p
	}
	return "C06"
}

type fsFailer interface {
	Fatalf(format string, args ...interface{})
}

type fsCaseInfo struct {
	hist       []string
	windows    int
	refilters  int
	deferReady bool
	baseline   bool
	listFailed bool
}

// readmit: the object last removed under this key comes back unchanged (same
// object, same version), provided the key is absent now.
func (p *fsParent) readmit(ns, name string) metav1.Object {
	p.mu.Lock()
	defer p.mu.Unlock()
	k := ns + "/" + name
	o := p.removed[k]
	if _, present := p.state[k]; present || o == nil {
		return nil
	}
	p.state[k] = o
	if !p.terminated {
		p.evch <- kcache.NewEvent(kcache.EventTypeCreate, o)
	}
	return o
}

func TestC06_FilterSubscriptionModel(t *testing.T) {
	cfg := fsCfg{
		keys:      [][2]string{{"a", "p"}, {"a", "q"}, {"b", "p"}, {"b", "q"}},
		labelSets: []map[string]string{nil, {"x": "1"}, {"x": "2"}},
		filters:   []int{0, 1, 2, 3, 4, 5, 6, 7, 8, 9},
		minSteps:  3, maxSteps: 16, maxInitial: 4, maxBurst: 6, maxDuring: 3, delOneIn: 4, listFailOneIn: 12, readmitOneIn: 5,
	}
	rapid.Check(t, func(t *rapid.T) {
		info := fsModelCase(t, fsDrawScript(fsRapidChooser{t}, cfg), rapid.Bool().Draw(t, "perturb"), rapid.Uint64().Draw(t, "pseed"))
		statCase(fsModelProp(), hashString("fsmodel;"+strings.Join(info.hist, ";")), info.windows > 0 && info.refilters > 0, func() interface{} {
			return map[string]interface{}{"mode": "filter subscription over a harness-owned parent", "history": info.hist}
		}, "filter_subscription_model", fmt.Sprintf("fsmodel_for_filter=%v", info.deferReady), fmt.Sprintf("fsmodel_list_windows=%d", min(info.windows, 3)), fmt.Sprintf("fsmodel_exact_baseline=%v", info.baseline), fmt.Sprintf("fsmodel_parent_listing_failed=%v", info.listFailed))
	})
}

// TestC06_FilterSubscriptionEnum: the whole choice tree of the model over a
// small domain - one key, labels {x=1, x=2}, filters {accept-all, x=1, x=2},
// for-filter or not, 0-1 initial objects, every sequence of exactly two
// (VERIF_FSENUM_STEPS) operations from {publish, burst of two, parent readiness (plain / List held
// with 0-1 events meanwhile, snapshot at call / at release), Refilter to each
// filter (same variants)}, then whatever is still needed to make the node
// ready.  Sharded by the first choices.
func TestC06_FilterSubscriptionEnum(t *testing.T) {
	cfg := fsCfg{
		keys:      [][2]string{{"a", "p"}},
		labelSets: []map[string]string{{"x": "1"}, {"x": "2"}},
		filters:   []int{0, 1, 2},
		minSteps:  2, maxSteps: 2, maxInitial: 1, maxBurst: 2, maxDuring: 1, delOneIn: 2,
	}
	if n := envInt("VERIF_FSENUM_STEPS", 2); n != 2 {
		cfg.minSteps, cfg.maxSteps = n, n
	}
	shard, nshards := shardOf()
	stride := envInt("VERIF_ENUM_STRIDE", 1)
	offset := envInt("VERIF_SEED", 1) % stride
	ch := &fsEnumChooser{}
	var cases, run int64
	ft := &testFailer{t: t, prop: "C06", test: "TestC06_FilterSubscriptionEnum"}
	for {
		sc := fsDrawScript(ch, cfg)
		if int(cases)%nshards == shard && (int(cases)/nshards)%stride == offset {
			ft.ctx = fmt.Sprintf("choices %v", ch.vec)
			info := fsModelCase(ft, sc, false, 1)
			run++
			statCase("C06", hashString("fsenum;"+strings.Join(info.hist, ";")), info.windows > 0, func() interface{} {
				return map[string]interface{}{"mode": "filter subscription model, enumerated", "history": info.hist}
			}, "filter_subscription_enum")
		}
		cases++
		if !ch.next() {
			break
		}
	}
	if shard == 0 {
		statLabel("C06", "fsenum_cases_in_tree", cases)
		what := fmt.Sprintf("filter subscription model: the complete choice tree over 1 key x 2 label values x 3 filters x for-filter/immediate x 0-1 initial objects x all sequences of %d operations with every List()-window variant (%d cases)", cfg.maxSteps, cases)
		if stride > 1 {
			what += fmt.Sprintf(" — this run: every %d-th case only (not exhaustive)", stride)
		}
		statExhaustive("C06", what)
	}
	_ = run
}

type fsPub struct {
	key     [2]string
	del     bool
	readmit bool // the parent announces again, unchanged, the object it last removed under this key
	labels  map[string]string
}

type fsStep struct {
	kind         string // publish, burst, parentReady, refilter, noop
	pubs         []fsPub
	gate, atCall bool
	listFails    bool // the parent's cache has stopped: this step's List() of the parent fails
	during       []fsPub
	f            int
}

type fsScript struct {
	deferReady bool
	f0         int
	initial    []fsPub
	steps      []fsStep
	ffinal     int
}

// fsDrawScript makes every choice of a case up front (pure: no library call),
// so that the shape of the choice tree depends on the choices alone.
func fsDrawScript(ch fsChooser, cfg fsCfg) fsScript {
	sc := fsScript{ffinal: -1}
	sc.deferReady = ch.intn("forFilter", 0, 1) == 1
	sc.f0 = cfg.filters[ch.intn("f0", 0, len(cfg.filters)-1)]
	pub := func(allowDel bool) fsPub {
		k := cfg.keys[ch.intn("k", 0, len(cfg.keys)-1)]
		if allowDel && ch.intn("del", 0, cfg.delOneIn-1) == 0 {
			return fsPub{key: k, del: true}
		}
		if allowDel && cfg.readmitOneIn > 0 && ch.intn("readmit", 0, cfg.readmitOneIn-1) == 0 {
			return fsPub{key: k, readmit: true}
		}
		return fsPub{key: k, labels: cfg.labelSets[ch.intn("labels", 0, len(cfg.labelSets)-1)]}
	}
	for i, n := 0, ch.intn("initial", 0, cfg.maxInitial); i < n; i++ {
		sc.initial = append(sc.initial, pub(false))
	}
	if cfg.readmitOneIn > 0 && ch.intn("pattern", 0, 7) == 0 {
		// a scripted head: an object of the node's view is updated out of its filter (a filter-delete on
		// the node), then removed by the parent, the node is refiltered to a filter that accepts the
		// object as it last was, and the parent announces it again unchanged
		k := cfg.keys[ch.intn("pk", 0, len(cfg.keys)-1)]
		sc.f0 = 1 // Labels{x=1}
		head := []fsStep{
			{kind: "parentReady"},
			{kind: "publish", pubs: []fsPub{{key: k, labels: map[string]string{"x": "1"}}}},
			{kind: "publish", pubs: []fsPub{{key: k, labels: map[string]string{"x": "2"}}}},
			{kind: "publish", pubs: []fsPub{{key: k, del: true}}},
			{kind: "refilter", f: 2}, // Labels{x=2}
			{kind: "publish", pubs: []fsPub{{key: k, readmit: true}}},
		}
		if sc.deferReady {
			head = append([]fsStep{{kind: "refilter", f: 1}}, head...)
		}
		sc.steps = head
		for i, n := 0, ch.intn("tail", 0, 4); i < n; i++ {
			sc.steps = append(sc.steps, fsStep{kind: "publish", pubs: []fsPub{pub(true)}})
		}
		return sc
	}
	parentReady, supplied := false, !sc.deferReady
	window := func(st *fsStep) {
		if cfg.listFailOneIn > 0 && ch.intn("listFails", 0, cfg.listFailOneIn-1) == 0 {
			st.listFails = true
		}
		st.gate = ch.intn("gate", 0, 1) == 1
		if st.gate {
			st.atCall = ch.intn("snapshotAtCall", 0, 1) == 1
			for i, n := 0, ch.intn("during", 0, cfg.maxDuring); i < n; i++ {
				st.during = append(st.during, pub(true))
			}
		}
	}
	ops := []string{"publish", "burst", "parentReady", "refilter", "publish", "refilter"}
	for i, n := 0, ch.intn("steps", cfg.minSteps, cfg.maxSteps); i < n; i++ {
		st := fsStep{kind: ops[ch.intn("op", 0, fsOpChoices(cfg)-1)]}
		switch st.kind {
		case "publish":
			st.pubs = []fsPub{pub(true)}
		case "burst":
			for j, nb := 0, ch.intn("n", 2, cfg.maxBurst); j < nb; j++ {
				st.pubs = append(st.pubs, pub(true))
			}
		case "parentReady":
			if parentReady {
				st.kind = "noop"
			} else {
				parentReady = true
				window(&st)
			}
		case "refilter":
			st.f = cfg.filters[ch.intn("f", 0, len(cfg.filters)-1)]
			supplied = true
			window(&st)
		}
		sc.steps = append(sc.steps, st)
	}
	if !supplied {
		sc.ffinal = cfg.filters[ch.intn("ffinal", 0, len(cfg.filters)-1)]
	}
	return sc
}

func fsModelCase(t fsFailer, sc fsScript, perturb bool, pseed uint64) fsCaseInfo {
	fam := treeFilterFamily()
	{
		p := newFsParent()
		p.closeTerminates = true // a node that shuts down closes its parent subscription, which then ends
		deferReady := sc.deferReady
		cur := sc.f0
		if deferReady {
			cur = -2 // not supplied
		}
		var hist []string
		h := func(format string, args ...interface{}) { hist = append(hist, fmt.Sprintf(format, args...)) }
		for _, ip := range sc.initial {
			p.put(ip.key[0], ip.key[1], ip.labels)
		}
		for len(p.evch) > 0 {
			<-p.evch // history: a subscription created now does not see it
		}
		before, _ := libGoroutines()
		plog := newPlog(perturb, pseed)
		var fs kcache.FilterSubscription
		if deferReady {
			fs = kcache.VerifNewFilterSubscription(plog, p, filter.All(), true)
		} else {
			fs = kcache.VerifNewFilterSubscription(plog, p, wrapFilter(fam[cur]), false)
		}
		n := &node{kind: "fsub", fsub: fs, leaf: fs, note: make(chan struct{}, 1), eof: make(chan struct{}), tokens: make(chan struct{}, 1)}
		go n.pump()
		terminate := p.terminate
		defer terminate()
		fail := func(format string, args ...interface{}) {
			t.Fatalf("%s violation: %s\n  history: %s", fsModelProp(), fmt.Sprintf(format, args...), strings.Join(hist, "; "))
		}
		h("for-filter=%v initial filter=%d parent holds %d objects", deferReady, cur, len(p.state))
		parentReady := false
		modelReady := func() bool { return parentReady && cur != -2 }
		accept := func(o metav1.Object) bool { return cur >= 0 && fam[cur].eval(o) }
		expected := func() []string {
			p.mu.Lock()
			defer p.mu.Unlock()
			var out []string
			for _, o := range p.state {
				if o.GetNamespace() != markerNS && accept(o) {
					out = append(out, objKey(o)+"@"+o.GetResourceVersion())
				}
			}
			sortStrings(out)
			return out
		}
		// barrier + oracles; clean: nothing was in flight when the node became ready (baseline is exact)
		windows := 0
		check := func(what string) {
			if !modelReady() {
				if isClosedCh(fs.Ready()) {
					fail("%s: Ready() is closed although %s", what, map[bool]string{true: "no filter has been supplied", false: "the parent is not ready"}[parentReady])
				}
				if c := n.eventCount(); c > 0 {
					fail("%s: %d events were delivered before Ready()", what, c)
				}
				return
			}
			if !waitWedge(fs.Ready()) {
				fail("WEDGE: %s: the parent is ready and a filter has been supplied but Ready() never closed", what)
			}
			// double marker (DESIGN 3.5): a Refilter call returns once the node has taken it, before it
			// lists its parent, so the first marker can reach the consumer through that listing and
			// overtake the events still queued; the second one can only travel through the queue
			for i := 0; i < 2; i++ {
				rv := p.put(markerNS, "marker", nil)
				if !n.waitMark(rv) {
					fail("WEDGE: %s: a marker event published by the parent (rv %d) never came out of the filter subscription", what, rv)
				}
			}
			if len(p.evch) != 0 {
				fail("harness: %s: the marker came out but %d events are still queued", what, len(p.evch))
			}
			objs, err := fs.Cache().List()
			if err != nil {
				fail("%s: List() failed: %v", what, err)
			}
			got := keyVersions(objs)
			if want := expected(); !sameStrings(got, want) {
				fail("%s: cache %v, the current filter applied to the parent's content gives %v (last events delivered: %v; List calls %d)", what, got, want, tail(renderEvs(n.eventsFrom(0)), 8), p.listCalls)
			}
			_, mirror, merr, early, _ := n.snapshotObs()
			if early != "" {
				fail("%s: %s", what, early)
			}
			if n.mirrorOn {
				if merr != "" {
					fail("%s: the event stream is not a well-formed delta of its cache: %s", what, merr)
				}
				if !sameStrings(mirror, got) {
					fail("%s: a consumer replaying Events() holds %v, the cache holds %v (last events delivered: %v)", what, mirror, got, tail(renderEvs(n.eventsFrom(0)), 8))
				}
			}
		}
		// takeBaseline: called right after the node became ready, provided nothing was in flight
		takeBaseline := func() {
			if n.mirrorOn {
				return
			}
			objs, _ := fs.Cache().List()
			n.mu.Lock()
			n.mirror = map[string]metav1.Object{}
			for _, o := range objs {
				if o.GetNamespace() != markerNS {
					n.mirror[objKey(o)] = o
				}
			}
			n.mirrorOn = true
			n.mu.Unlock()
		}
		publish := func(why string, pb fsPub) {
			k := pb.key
			if pb.del {
				if p.del(k[0], k[1]) {
					h("%s: del %s/%s", why, k[0], k[1])
				}
				return
			}
			if pb.readmit {
				// what a filtered parent does when it is refiltered away from an object and back: Delete
				// earlier, now a Create of the very same object at the very same version
				if o := p.readmit(k[0], k[1]); o != nil {
					h("%s: %s announced again, unchanged", why, objStr(o))
				}
				return
			}
			rv := p.put(k[0], k[1], pb.labels)
			h("%s: put %s/%s%s -> rv %d", why, k[0], k[1], labelsStr(pb.labels), rv)
		}
		// trigger runs op (which may make the node list its parent) with the next List() held at a gate
		// while `during` events are published; returns whether a List call was caught
		listFailed := false
		trigger := func(name string, op func(), apply func(), st fsStep, expectList bool) {
			gated := st.gate
			if st.listFails && expectList {
				// the parent's cache has already stopped when the node lists it: the node cannot sync, so it
				// must shut down - never become (or pretend to stay) synced on an empty listing
				wasReadyBefore := isClosedCh(fs.Ready())
				p.mu.Lock()
				p.listErr = kcache.ErrNotRunning
				p.mu.Unlock()
				h("%s: the parent's cache has stopped, List() fails", name)
				opDone := make(chan struct{})
				go func() { op(); close(opDone) }()
				select {
				case <-fs.Done():
				case <-time.After(wedgeBoundNow()):
					fail("WEDGE: %s: the listing of the parent failed (its cache has stopped) but the filter subscription did not shut down (Ready() closed: %v)", name, isClosedCh(fs.Ready()))
				}
				select {
				case <-opDone:
				case <-time.After(wedgeBoundNow()):
					fail("WEDGE: %s did not return after the subscription shut down", name)
				}
				if !wasReadyBefore && isClosedCh(fs.Ready()) {
					objs, _ := fs.Cache().List()
					fail("%s: the listing of the parent failed, yet Ready() closed (cache read after Ready: %v; the parent holds %d objects)", name, keyVersions(objs), len(p.state))
				}
				select {
				case <-n.eof:
				case <-time.After(wedgeBoundNow()):
					fail("WEDGE: %s: the subscription is done but its Events() channel never closed", name)
				}
				if atomic.LoadInt32(&p.closes) == 0 {
					fail("%s: the filter subscription shut down without closing its parent subscription", name)
				}
				listFailed = true
				return
			}
			wasReady := modelReady()
			quietBefore := len(p.evch) == 0
			during := 0
			var g chan struct{}
			if gated {
				g = make(chan struct{})
				p.mu.Lock()
				p.gate, p.atCall = g, st.atCall
				atCall := p.atCall
				p.mu.Unlock()
				for len(p.onList) > 0 {
					<-p.onList
				}
				opDone := make(chan struct{})
				go func() { op(); close(opDone) }()
				caught := false
				// (whether the node will list its parent is predicted from the model only to size this
				// wait; a wrong prediction merely misses the window)
				wait := 300 * time.Microsecond
				if expectList {
					wait = 50 * time.Millisecond
				}
				select {
				case <-p.onList:
					caught = true
				case <-time.After(wait):
				}
				p.mu.Lock()
				if p.gate == nil && !caught {
					caught = true // the call arrived just now
				}
				p.gate = nil
				p.mu.Unlock()
				if caught {
					windows++
					during = len(st.during)
					for _, pb := range st.during {
						publish(fmt.Sprintf("while %s holds List() (snapshot at %s)", name, map[bool]string{true: "call", false: "release"}[atCall]), pb)
					}
				}
				close(g)
				select {
				case <-opDone:
				case <-time.After(wedgeBoundNow()):
					fail("WEDGE: %s did not return", name)
				}
			} else {
				opDone := make(chan struct{})
				go func() { op(); close(opDone) }()
				select {
				case <-opDone:
				case <-time.After(wedgeBoundNow()):
					fail("WEDGE: %s did not return", name)
				}
			}
			apply()
			if !wasReady && modelReady() {
				if !waitWedge(fs.Ready()) {
					fail("WEDGE: after %s the parent is ready and a filter has been supplied but Ready() never closed", name)
				}
				if quietBefore && during == 0 {
					// nothing in flight: what a reader sees at Ready() is exactly the filtered parent content
					objs, _ := fs.Cache().List()
					if got, want := keyVersions(objs), expected(); !sameStrings(got, want) {
						fail("%s made the node ready; a cache read made right then returned %v, the filtered parent content is %v", name, got, want)
					}
					takeBaseline()
				}
			}
		}
		refilters := 0
		for i, st := range sc.steps {
			switch st.kind {
			case "noop":
				continue
			case "publish":
				publish("event", st.pubs[0])
			case "burst":
				for _, pb := range st.pubs {
					publish("burst", pb)
				}
				continue // no barrier: the next operation meets unread events in the node's inbox
			case "parentReady":
				h("parent becomes ready")
				trigger("parent readiness", func() { close(p.readych) }, func() { parentReady = true }, st, !deferReady || cur != -2)
			case "refilter":
				next := st.f
				h("Refilter %d -> %d", cur, next)
				var err error
				var curFilter filter.Filter = filter.All()
				if cur >= 0 {
					curFilter = wrapFilter(fam[cur])
				}
				trigger(fmt.Sprintf("Refilter(%d -> %d)", cur, next), func() { err = fs.Refilter(wrapFilter(fam[next])) }, func() { cur = next }, st,
					parentReady && !filter.FiltersEqual(curFilter, wrapFilter(fam[next])))
				if err != nil && !listFailed {
					fail("Refilter on a live subscription failed: %v", err)
				}
				refilters++
			}
			if listFailed {
				break
			}
			check(fmt.Sprintf("after step %d", i))
		}
		if listFailed {
			if c, dump := waitLibGoroutinesAtMost(before, wedgeBoundNow()); c > before {
				fail("%d library goroutines left after the subscription shut down on a failed listing:\n%s", c-before, dump)
			}
			return fsCaseInfo{hist: hist, windows: windows, refilters: refilters, deferReady: deferReady, baseline: n.mirrorOn, listFailed: true}
		}
		// finish: make it ready if it is not, final check, shutdown
		if !parentReady {
			h("parent becomes ready")
			trigger("parent readiness", func() { close(p.readych) }, func() { parentReady = true }, fsStep{}, false)
		}
		if cur == -2 {
			next := sc.ffinal
			h("Refilter -> %d", next)
			trigger("the first Refilter", func() { fs.Refilter(wrapFilter(fam[next])) }, func() { cur = next }, fsStep{}, false)
		}
		check("at the end")
		// the parent terminates: the node closes its Events() and is Done
		terminate()
		select {
		case <-n.eof:
		case <-time.After(wedgeBoundNow()):
			fail("WEDGE: the parent's Events() channel was closed but the filter subscription's Events() never closed")
		}
		if !waitWedge(fs.Done()) {
			fail("WEDGE: Done() never closed after the parent terminated")
		}
		if atomic.LoadInt32(&p.closes) == 0 {
			fail("the filter subscription shut down without closing its parent subscription")
		}
		if c, dump := waitLibGoroutinesAtMost(before, wedgeBoundNow()); c > before {
			fail("%d library goroutines left after the parent terminated:\n%s", c-before, dump)
		}
		return fsCaseInfo{hist: hist, windows: windows, refilters: refilters, deferReady: deferReady, baseline: n.mirrorOn}
	}
}

// fsOpChoices: the enumeration draws each operation kind once; the random
// search draws publish and refilter twice as often.
func fsOpChoices(cfg fsCfg) int {
	if cfg.maxSteps <= 3 {
		return 4
	}
	return 6
}
