//go:build verif

package verifharness

// C06/C08 (continued) — the filter subscription over a parent the harness
// owns (hook kcache.VerifNewFilterSubscription).
//
// In the tree harness the windows that matter for a filtered node - a parent
// event published after the node listed its parent but before it became
// ready, an event still unread in its inbox when it lists, a Refilter that
// lists while events are arriving - are reached only by racing real
// goroutines.  Here the parent is a fake kcache.Subscription: the harness
// closes its Ready(), feeds its Events() channel and answers Cache().List(),
// and it can hold a List() call of the node under test at a gate, publish
// events meanwhile, and let the call return the snapshot taken at call time
// or at release time.  The parent honours the one contract a real parent
// gives: an event is in the channel no later than its effect is visible in the
// cache.  Every such interleaving is therefore produced deterministically.
//
// Oracle after every operation (marker barrier through the node): readiness
// == parent ready and (not for-filter or filter supplied); cache == current
// filter applied to the parent's state, at the parent's versions; no event
// before Ready(); once a baseline could be taken with nothing in flight, the
// strict mirror of its events equals its cache.

import (
	"fmt"
	"strconv"
	"strings"
	"sync"
	"sync/atomic"
	"testing"
	"time"

	"github.com/boz/kcache"
	"github.com/boz/kcache/filter"
	metav1 "k8s.io/apimachinery/pkg/apis/meta/v1"
	"pgregory.net/rapid"
)

type fsParent struct {
	mu      sync.Mutex
	state   map[string]metav1.Object
	rv      int
	evch    chan kcache.Event
	readych chan struct{}
	donech  chan struct{}
	closes  int32

	listCalls int
	gate      chan struct{} // non-nil: the next List() call blocks until it is closed
	atCall    bool          // ... and returns the snapshot taken when it was called (else: when released)
	onList    chan int
}

func newFsParent() *fsParent {
	return &fsParent{state: map[string]metav1.Object{}, evch: make(chan kcache.Event, 8192), readych: make(chan struct{}), donech: make(chan struct{}), onList: make(chan int, 64)}
}

func (p *fsParent) Cache() kcache.CacheReader   { return fsParentCache{p} }
func (p *fsParent) Ready() <-chan struct{}      { return p.readych }
func (p *fsParent) Events() <-chan kcache.Event { return p.evch }
func (p *fsParent) Close()                      { atomic.AddInt32(&p.closes, 1) }
func (p *fsParent) Done() <-chan struct{}       { return p.donech }
func (p *fsParent) Error() error                { return nil }

type fsParentCache struct{ p *fsParent }

func (c fsParentCache) snapshotLocked() []metav1.Object {
	out := make([]metav1.Object, 0, len(c.p.state))
	for _, o := range c.p.state {
		out = append(out, o)
	}
	return out
}

func (c fsParentCache) List() ([]metav1.Object, error) {
	p := c.p
	p.mu.Lock()
	p.listCalls++
	k := p.listCalls
	g, atCall := p.gate, p.atCall
	p.gate = nil
	snap := c.snapshotLocked()
	p.mu.Unlock()
	select {
	case p.onList <- k:
	default:
	}
	if g != nil {
		<-g
		if !atCall {
			p.mu.Lock()
			snap = c.snapshotLocked()
			p.mu.Unlock()
		}
	}
	return snap, nil
}

func (c fsParentCache) Get(ns, name string) (metav1.Object, error) {
	c.p.mu.Lock()
	defer c.p.mu.Unlock()
	return c.p.state[ns+"/"+name], nil
}

func (c fsParentCache) GetObject(o metav1.Object) (metav1.Object, error) {
	return c.Get(o.GetNamespace(), o.GetName())
}

// put / del: the parent applies a change and publishes the event, atomically.
func (p *fsParent) put(ns, name string, labels map[string]string) int {
	p.mu.Lock()
	defer p.mu.Unlock()
	p.rv++
	o := mkPod(ns, name, strconv.Itoa(p.rv), labels)
	typ := kcache.EventTypeCreate
	if _, ok := p.state[ns+"/"+name]; ok {
		typ = kcache.EventTypeUpdate
	}
	p.state[ns+"/"+name] = o
	p.evch <- kcache.NewEvent(typ, o)
	return p.rv
}

func (p *fsParent) del(ns, name string) bool {
	p.mu.Lock()
	defer p.mu.Unlock()
	o, ok := p.state[ns+"/"+name]
	if !ok {
		return false
	}
	delete(p.state, ns+"/"+name)
	p.evch <- kcache.NewEvent(kcache.EventTypeDelete, o) // like the cache: the Delete carries the object it held
	return true
}

func TestC06_FilterSubscriptionModel(t *testing.T) {
	fam := treeFilterFamily()
	rapid.Check(t, func(t *rapid.T) {
		p := newFsParent()
		deferReady := rapid.Bool().Draw(t, "forFilter")
		cur := rapid.IntRange(0, len(fam)-1).Draw(t, "f0")
		if deferReady {
			cur = -2 // not supplied
		}
		var hist []string
		h := func(format string, args ...interface{}) { hist = append(hist, fmt.Sprintf(format, args...)) }
		keys := [][2]string{{"a", "p"}, {"a", "q"}, {"b", "p"}, {"b", "q"}}
		for i := 0; i < rapid.IntRange(0, 4).Draw(t, "initial"); i++ {
			k := rapid.SampledFrom(keys).Draw(t, "k")
			p.put(k[0], k[1], drawLabels(t))
		}
		for len(p.evch) > 0 {
			<-p.evch // history: a subscription created now does not see it
		}
		before, _ := libGoroutines()
		plog := newPlog(rapid.Bool().Draw(t, "perturb"), rapid.Uint64().Draw(t, "pseed"))
		var fs kcache.FilterSubscription
		if deferReady {
			fs = kcache.VerifNewFilterSubscription(plog, p, filter.All(), true)
		} else {
			fs = kcache.VerifNewFilterSubscription(plog, p, wrapFilter(fam[cur]), false)
		}
		n := &node{kind: "fsub", fsub: fs, leaf: fs, note: make(chan struct{}, 1), eof: make(chan struct{}), tokens: make(chan struct{}, 1)}
		go n.pump()
		terminated := false
		terminate := func() {
			if !terminated {
				terminated = true
				close(p.evch)
				close(p.donech)
			}
		}
		defer terminate()
		fail := func(format string, args ...interface{}) {
			t.Fatalf("C06 violation: %s\n  history: %s", fmt.Sprintf(format, args...), strings.Join(hist, "; "))
		}
		h("for-filter=%v initial filter=%d parent holds %d objects", deferReady, cur, len(p.state))
		parentReady := false
		modelReady := func() bool { return parentReady && cur != -2 }
		accept := func(o metav1.Object) bool { return cur >= 0 && fam[cur].eval(o) }
		expected := func() []string {
			p.mu.Lock()
			defer p.mu.Unlock()
			var out []string
			for _, o := range p.state {
				if o.GetNamespace() != markerNS && accept(o) {
					out = append(out, objKey(o)+"@"+o.GetResourceVersion())
				}
			}
			sortStrings(out)
			return out
		}
		// barrier + oracles; clean: nothing was in flight when the node became ready (baseline is exact)
		windows := 0
		check := func(what string) {
			if !modelReady() {
				if isClosedCh(fs.Ready()) {
					fail("%s: Ready() is closed although %s", what, map[bool]string{true: "no filter has been supplied", false: "the parent is not ready"}[parentReady])
				}
				if c := n.eventCount(); c > 0 {
					fail("%s: %d events were delivered before Ready()", what, c)
				}
				return
			}
			if !waitWedge(fs.Ready()) {
				fail("WEDGE: %s: the parent is ready and a filter has been supplied but Ready() never closed", what)
			}
			// double marker (DESIGN 3.5): a Refilter call returns once the node has taken it, before it
			// lists its parent, so the first marker can reach the consumer through that listing and
			// overtake the events still queued; the second one can only travel through the queue
			for i := 0; i < 2; i++ {
				rv := p.put(markerNS, "marker", nil)
				if !n.waitMark(rv) {
					fail("WEDGE: %s: a marker event published by the parent (rv %d) never came out of the filter subscription", what, rv)
				}
			}
			if len(p.evch) != 0 {
				fail("harness: %s: the marker came out but %d events are still queued", what, len(p.evch))
			}
			objs, err := fs.Cache().List()
			if err != nil {
				fail("%s: List() failed: %v", what, err)
			}
			got := keyVersions(objs)
			if want := expected(); !sameStrings(got, want) {
				fail("%s: cache %v, the current filter applied to the parent's content gives %v (last events delivered: %v; List calls %d)", what, got, want, tail(renderEvs(n.eventsFrom(0)), 8), p.listCalls)
			}
			_, mirror, merr, early, _ := n.snapshotObs()
			if early != "" {
				fail("%s: %s", what, early)
			}
			if n.mirrorOn {
				if merr != "" {
					fail("%s: the event stream is not a well-formed delta of its cache: %s", what, merr)
				}
				if !sameStrings(mirror, got) {
					fail("%s: a consumer replaying Events() holds %v, the cache holds %v (last events delivered: %v)", what, mirror, got, tail(renderEvs(n.eventsFrom(0)), 8))
				}
			}
		}
		// takeBaseline: called right after the node became ready, provided nothing was in flight
		takeBaseline := func() {
			if n.mirrorOn {
				return
			}
			objs, _ := fs.Cache().List()
			n.mu.Lock()
			n.mirror = map[string]metav1.Object{}
			for _, o := range objs {
				if o.GetNamespace() != markerNS {
					n.mirror[objKey(o)] = o
				}
			}
			n.mirrorOn = true
			n.mu.Unlock()
		}
		publish := func(why string) {
			k := rapid.SampledFrom(keys).Draw(t, "k")
			if rapid.IntRange(0, 3).Draw(t, "del") == 0 {
				if p.del(k[0], k[1]) {
					h("%s: del %s/%s", why, k[0], k[1])
				}
				return
			}
			l := drawLabels(t)
			rv := p.put(k[0], k[1], l)
			h("%s: put %s/%s%s -> rv %d", why, k[0], k[1], labelsStr(l), rv)
		}
		// trigger runs op (which may make the node list its parent) with the next List() held at a gate
		// while `during` events are published; returns whether a List call was caught
		trigger := func(name string, op func(), apply func(), gated bool, expectList bool) {
			wasReady := modelReady()
			quietBefore := len(p.evch) == 0
			during := 0
			var g chan struct{}
			if gated {
				g = make(chan struct{})
				p.mu.Lock()
				p.gate, p.atCall = g, rapid.Bool().Draw(t, "snapshotAtCall")
				atCall := p.atCall
				p.mu.Unlock()
				for len(p.onList) > 0 {
					<-p.onList
				}
				opDone := make(chan struct{})
				go func() { op(); close(opDone) }()
				caught := false
				// (whether the node will list its parent is predicted from the model only to size this
				// wait; a wrong prediction merely misses the window)
				wait := 300 * time.Microsecond
				if expectList {
					wait = 50 * time.Millisecond
				}
				select {
				case <-p.onList:
					caught = true
				case <-time.After(wait):
				}
				p.mu.Lock()
				if p.gate == nil && !caught {
					caught = true // the call arrived just now
				}
				p.gate = nil
				p.mu.Unlock()
				if caught {
					windows++
					during = rapid.IntRange(0, 3).Draw(t, "during")
					for i := 0; i < during; i++ {
						publish(fmt.Sprintf("while %s holds List() (snapshot at %s)", name, map[bool]string{true: "call", false: "release"}[atCall]))
					}
				}
				close(g)
				select {
				case <-opDone:
				case <-time.After(wedgeBoundNow()):
					fail("WEDGE: %s did not return", name)
				}
			} else {
				opDone := make(chan struct{})
				go func() { op(); close(opDone) }()
				select {
				case <-opDone:
				case <-time.After(wedgeBoundNow()):
					fail("WEDGE: %s did not return", name)
				}
			}
			apply()
			if !wasReady && modelReady() {
				if !waitWedge(fs.Ready()) {
					fail("WEDGE: after %s the parent is ready and a filter has been supplied but Ready() never closed", name)
				}
				if quietBefore && during == 0 {
					// nothing in flight: what a reader sees at Ready() is exactly the filtered parent content
					objs, _ := fs.Cache().List()
					if got, want := keyVersions(objs), expected(); !sameStrings(got, want) {
						fail("%s made the node ready; a cache read made right then returned %v, the filtered parent content is %v", name, got, want)
					}
					takeBaseline()
				}
			}
		}
		steps := rapid.IntRange(3, 16).Draw(t, "steps")
		refilters := 0
		for i := 0; i < steps; i++ {
			switch rapid.SampledFrom([]string{"publish", "publish", "burst", "parentReady", "refilter", "refilter"}).Draw(t, "op") {
			case "publish":
				publish("event")
			case "burst":
				for j := 0; j < rapid.IntRange(2, 6).Draw(t, "n"); j++ {
					publish("burst")
				}
				continue // no barrier: the next operation meets unread events in the node's inbox
			case "parentReady":
				if parentReady {
					continue
				}
				h("parent becomes ready")
				trigger("parent readiness", func() { close(p.readych) }, func() { parentReady = true }, rapid.Bool().Draw(t, "gate"), !deferReady || cur != -2)
			case "refilter":
				next := rapid.IntRange(0, len(fam)-1).Draw(t, "f")
				h("Refilter %d -> %d", cur, next)
				var err error
				var curFilter filter.Filter = filter.All()
				if cur >= 0 {
					curFilter = wrapFilter(fam[cur])
				}
				trigger(fmt.Sprintf("Refilter(%d -> %d)", cur, next), func() { err = fs.Refilter(wrapFilter(fam[next])) }, func() { cur = next }, rapid.Bool().Draw(t, "gate"),
					parentReady && !filter.FiltersEqual(curFilter, wrapFilter(fam[next])))
				if err != nil {
					fail("Refilter on a live subscription failed: %v", err)
				}
				refilters++
			}
			check(fmt.Sprintf("after step %d", i))
		}
		// finish: make it ready if it is not, final check, shutdown
		if !parentReady {
			h("parent becomes ready")
			trigger("parent readiness", func() { close(p.readych) }, func() { parentReady = true }, false, false)
		}
		if cur == -2 {
			next := rapid.IntRange(0, len(fam)-1).Draw(t, "ffinal")
			h("Refilter -> %d", next)
			trigger("the first Refilter", func() { fs.Refilter(wrapFilter(fam[next])) }, func() { cur = next }, false, false)
		}
		check("at the end")
		// the parent terminates: the node closes its Events() and is Done
		terminate()
		select {
		case <-n.eof:
		case <-time.After(wedgeBoundNow()):
			fail("WEDGE: the parent's Events() channel was closed but the filter subscription's Events() never closed")
		}
		if !waitWedge(fs.Done()) {
			fail("WEDGE: Done() never closed after the parent terminated")
		}
		if atomic.LoadInt32(&p.closes) == 0 {
			fail("the filter subscription shut down without closing its parent subscription")
		}
		if c, dump := waitLibGoroutinesAtMost(before, wedgeBoundNow()); c > before {
			fail("%d library goroutines left after the parent terminated:\n%s", c-before, dump)
		}
		statCase("C06", hashString("fsmodel;"+strings.Join(hist, ";")), windows > 0 && refilters > 0, func() interface{} {
			return map[string]interface{}{"mode": "filter subscription over a harness-owned parent", "history": hist}
		}, "filter_subscription_model", fmt.Sprintf("fsmodel_for_filter=%v", deferReady), fmt.Sprintf("fsmodel_list_windows=%d", min(windows, 3)), fmt.Sprintf("fsmodel_exact_baseline=%v", n.mirrorOn))
	})
}
