//go:build verif

package verifharness

// C11 — shutdown cascades down the tree, never up or sideways.
//
// TestC11_Machine: the quiet tree state machine (all six attach kinds plus
// monitors, depth <= 4) with "close any node" as an operation; after every
// operation the closed set must equal the model's (closed node's subtree:
// Done closed, Events closed after buffered events), every other node must
// have Done/Events open and stay fully functional (converges at the barrier,
// accepts Subscribe/Refilter, receives fresh events).
//
// TestC11_Moments: one close per case at a generated moment — before the root
// is ready (first list gated), mid-stream, during a Refilter issued from
// another goroutine, during a gated relist — with a generated mechanism
// (Close of any node; for the root also context cancellation and a fatal list
// error), followed by further operations on the survivors.

import (
	"errors"
	"fmt"
	"strings"
	"sync"
	"testing"

	"github.com/boz/kcache"
	"pgregory.net/rapid"
)

func TestC11_Machine(t *testing.T) {
	rapid.Check(t, func(t *rapid.T) {
		w := newWorld(t, worldCfg{prop: "C11", rootFilter: -1, stepChecked: true})
		defer w.abort()
		w.checkQuiet()
		st := &treeStats{}
		ops := treeOps(w, st, 4, false, true)
		ops["attachMon"] = func(t *rapid.T) {
			if len(w.nodes) >= 14 {
				t.Skip("enough nodes")
			}
			p := rapid.SampledFrom(w.livePublishers()).Draw(t, "parent")
			w.attachMonitor(p)
		}
		siblingTraffic := false
		for name, op := range ops {
			op, name := op, name
			ops[name] = func(t *rapid.T) {
				op(t)
				w.checkQuiet()
				if name == "put" && st.closedInternal {
					siblingTraffic = true
				}
			}
		}
		t.Repeat(ops)
		w.checkQuiet()
		w.finish()
		hist := append([]string(nil), w.hist...)
		statCase("C11", hashString(strings.Join(hist, ";")), st.closedInternal && siblingTraffic, func() interface{} {
			return map[string]interface{}{"mode": "machine", "history": hist}
		}, "machine", fmt.Sprintf("closed_internal_node=%v", st.closedInternal))
	})
}

func TestC11_Moments(t *testing.T) {
	rapid.Check(t, func(t *rapid.T) {
		moment := rapid.SampledFrom([]string{"before-ready", "mid-stream", "during-refilter", "during-relist", "quiet"}).Draw(t, "moment")
		cfg := worldCfg{prop: "C11", rootFilter: -1, perturb: rapid.Bool().Draw(t, "perturb"), seed: rapid.Uint64().Draw(t, "pseed")}
		if moment == "before-ready" {
			cfg.gateFirst = true
		}
		if moment == "during-relist" {
			cfg.gatedRelist = true
			cfg.period = 1500000
		}
		w := newWorld(t, cfg)
		defer w.abort()
		// tree
		nattach := rapid.IntRange(1, 9).Draw(t, "nattach")
		for i := 0; i < nattach; i++ {
			var cands []*node
			for _, n := range w.livePublishers() {
				if n.depth() < 4 {
					cands = append(cands, n)
				}
			}
			p := rapid.SampledFrom(cands).Draw(t, "parent")
			kind := rapid.SampledFrom(append([]string{"mon"}, attachKinds...)).Draw(t, "kind")
			if kind == "mon" {
				w.attachMonitor(p)
			} else {
				n := w.attach(p, kind, rapid.IntRange(0, len(w.fam)-1).Draw(t, "f"))
				if n.isDeferred() && rapid.Bool().Draw(t, "supply") {
					w.refilter(n, rapid.IntRange(0, len(w.fam)-1).Draw(t, "fd"))
				}
			}
		}
		traffic := func(n int) {
			for i := 0; i < n; i++ {
				k := rapid.SampledFrom(treeKeys).Draw(t, "k")
				if rapid.IntRange(0, 3).Draw(t, "del") == 0 {
					w.del(k[0], k[1])
				} else {
					w.put(k[0], k[1], drawLabels(t))
				}
			}
		}
		traffic(rapid.IntRange(0, 6).Draw(t, "pre"))
		if moment != "before-ready" {
			w.checkQuiet()
		}
		// optionally: some consumers stop reading and their buffers overflow before the close
		var stalled []*node
		if moment != "before-ready" && moment != "during-relist" && rapid.IntRange(0, 2).Draw(t, "stallSome") == 0 {
			for _, n := range w.nodes {
				if n.kind == "sub" && rapid.Bool().Draw(t, "stall") {
					w.stallNode(n)
					n.lossy = true
					stalled = append(stalled, n)
				}
			}
			if len(stalled) > 0 {
				nev := rapid.IntRange(kcache.EventBufsiz, kcache.EventBufsiz+40).Draw(t, "overflow")
				for i := 0; i < nev; i++ {
					kk := treeKeys[i%len(treeKeys)]
					w.put(kk[0], kk[1], map[string]string{"x": fmt.Sprint(1 + i%2)})
					if i%20 == 19 {
						w.barrier() // healthy nodes keep up; stalled ones are not waited for
					}
				}
				w.checkQuiet()
			}
		}
		// target and mechanism
		target := rapid.SampledFrom(w.nodes).Draw(t, "target")
		mech := "close"
		if target.kind == "root" {
			ms := []string{"close", "cancel"}
			if moment == "during-relist" || moment == "before-ready" {
				ms = append(ms, "listerror")
			}
			mech = rapid.SampledFrom(ms).Draw(t, "mech")
		}
		doClose := func() {
			switch mech {
			case "close":
				target.closeReal()
			case "cancel":
				w.cancel()
			case "listerror":
				fault, flavour := drawListFault(t)
				w.api.listErr = flavour
				if moment == "before-ready" {
					w.releaseFirst(fault)
				} else {
					req := w.api.awaitListWedge()
					if req == nil {
						w.fail("WEDGE: no relist was issued")
					}
					req.fail(fault)
				}
			}
			w.h("close %s (%s) by %s at moment %s", target.name, target.kind, mech, moment)
		}
		var wg sync.WaitGroup
		var rfErr error
		var rfNode *node
		switch moment {
		case "mid-stream":
			// server traffic in flight while the node closes
			ops := rapid.IntRange(5, 40).Draw(t, "inflight")
			type sop struct {
				k   [2]string
				l   map[string]string
				del bool
			}
			script := make([]sop, ops)
			for i := range script {
				script[i] = sop{rapid.SampledFrom(treeKeys).Draw(t, "k"), drawLabels(t), rapid.IntRange(0, 3).Draw(t, "del") == 0}
			}
			at := rapid.IntRange(0, ops).Draw(t, "closeAt")
			for i, o := range script {
				if i == at {
					doClose()
				}
				if o.del {
					w.del(o.k[0], o.k[1])
				} else {
					w.put(o.k[0], o.k[1], o.l)
				}
			}
			if at == ops {
				doClose()
			}
		case "during-refilter":
			fs := w.liveFiltered()
			if len(fs) > 0 {
				rfNode = rapid.SampledFrom(fs).Draw(t, "rfnode")
				fi := rapid.IntRange(0, len(w.fam)-1).Draw(t, "rf")
				f := wrapFilter(w.fam[fi])
				wg.Add(1)
				go func() {
					defer wg.Done()
					if rfNode.fsub != nil {
						rfErr = rfNode.fsub.Refilter(f)
					} else {
						rfErr = rfNode.fctl.Refilter(f)
					}
				}()
				doClose()
				done := make(chan struct{})
				go func() { wg.Wait(); close(done) }()
				w.waitFor(done, "Refilter() racing with a close returning")
				inClosed := false
				for x := rfNode; x != nil; x = x.parent {
					if x == target {
						inClosed = true
					}
				}
				if rfErr != nil {
					if !inClosed {
						w.fail("Refilter on %s failed with %v although the node is outside the closed subtree of %s", rfNode.path(), rfErr, target.path())
					}
					if !errors.Is(rfErr, kcache.ErrNotRunning) {
						w.fail("Refilter racing with shutdown returned %v, expected ErrNotRunning", rfErr)
					}
				} else {
					rfNode.filt = fi
					w.h("refilter %s -> %s (concurrent with the close)", rfNode.name, w.filtName(fi))
				}
			} else {
				doClose()
			}
		case "during-relist":
			// a List call is pending at the gate while the node closes
			if mech != "listerror" {
				req := w.api.awaitListWedge()
				if req == nil {
					w.fail("WEDGE: no relist was issued")
				}
				doClose()
				if target.kind != "root" {
					w.completeRelist(req)
				}
			} else {
				doClose()
			}
		default:
			doClose()
		}
		w.markClosed(target)
		if target.kind == "root" {
			// everything closes; the error is reported
			w.waitFor(w.root.Done(), fmt.Sprintf("root Done() after %s", mech))
			// the cascade must not depend on consumers that stopped reading: Done() everywhere first ...
			for _, n := range w.nodes {
				w.waitFor(n.doneCh(), fmt.Sprintf("Done() of %s after the root was closed by %s (%d consumers stalled with overflowed buffers)", n.path(), mech, len(stalled)))
			}
			// ... only then do the stalled consumers resume, to see their channels closed
			for _, n := range stalled {
				w.unstallNode(n)
			}
			for _, n := range w.nodes {
				if n.kind != "mon" {
					w.waitFor(n.eof, fmt.Sprintf("Events() of %s closed after the root was closed by %s", n.path(), mech))
				}
			}
			w.finished = true
			w.cancel()
			if c, dump := waitNoLibGoroutines(wedgeBound); c != 0 {
				w.fail("%d library goroutines left after the root was closed by %s:\n%s", c, mech, dump)
			}
		} else {
			if moment == "before-ready" {
				// survivors are not ready yet; the closed subtree must be done regardless
				for _, n := range w.nodes {
					if n.closed {
						w.waitFor(n.doneCh(), fmt.Sprintf("Done() of %s closed before the root was ready", n.path()))
					} else if isClosedCh(n.doneCh()) {
						w.fail("node %s is done although only %s was closed", n.path(), target.path())
					}
				}
				w.releaseFirst(lfNone)
			}
			w.checkQuiet()
			// survivors stay fully functional: fresh traffic, Subscribe and Refilter
			traffic(rapid.IntRange(1, 5).Draw(t, "post"))
			for _, n := range w.livePublishers() {
				if rapid.Bool().Draw(t, "sub") {
					w.attach(n, rapid.SampledFrom(attachKinds).Draw(t, "pk"), rapid.IntRange(0, len(w.fam)-1).Draw(t, "pf"))
				}
			}
			for _, n := range w.liveFiltered() {
				if rapid.Bool().Draw(t, "rf2") {
					w.refilter(n, rapid.IntRange(0, len(w.fam)-1).Draw(t, "rf2f"))
				}
			}
			w.checkQuiet()
			traffic(rapid.IntRange(1, 5).Draw(t, "post2"))
			w.checkQuiet()
			w.finish()
		}
		hist := append([]string(nil), w.hist...)
		internal := len(target.children) > 0
		liveSibling := false
		if target.parent != nil {
			for _, s := range target.parent.children {
				if s != target {
					liveSibling = true
				}
			}
		}
		statCase("C11", hashString(strings.Join(hist, ";")), internal && (liveSibling || target.kind == "root"), func() interface{} {
			return map[string]interface{}{"mode": "moments", "moment": moment, "mechanism": mech, "target": target.kind, "history": hist}
		}, "moment_"+moment, "mech_"+mech, "target_"+target.kind, fmt.Sprintf("stalled_consumers=%v", len(stalled) > 0))
	})
}
