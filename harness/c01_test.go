//go:build verif

package verifharness

// C01 — cache content is exactly the accepted, newest-version view of its inputs.
// C02 — emitted events are an exact, minimal, well-formed delta of the cache.
//
// One harness, two oracles.  The real cache actor (hook NewVerifCache) is
// driven by generated sequences of sync / update / refilter; after every
// operation
//   C01: List() and Get() of every key equal the reference model
//        (cachemodel_test.go), every cached object satisfies the current
//        predicate, a not-newer version never replaced the cached object;
//   C02: the returned events, replayed strictly over the content read before
//        the call, give exactly the content read after it; an unchanged
//        content comes with no event.

import (
	"context"
	"fmt"
	"os"
	"strconv"
	"strings"
	"testing"
	"time"

	"github.com/boz/kcache"
	metav1 "k8s.io/apimachinery/pkg/apis/meta/v1"
	"k8s.io/apimachinery/pkg/types"
	"pgregory.net/rapid"
)

var traceOps = os.Getenv("VERIF_TRACE") != ""

func traceOp(format string, args ...interface{}) {
	if traceOps {
		fmt.Fprintf(os.Stdout, "TRACE "+format+"\n", args...)
	}
}

// cacheFilters: the filter family of the random walks, as terms (reference
// predicate = term.eval, real filter = term.build()).
func cacheFilterFamily() []*term {
	set := func(kv ...string) map[string]string {
		m := map[string]string{}
		for i := 0; i+1 < len(kv); i += 2 {
			m[kv[i]] = kv[i+1]
		}
		return m
	}
	ns := func(id string) *term {
		parts := strings.Split(id, "/")
		tm := &term{Kind: tNSName}
		tm.IDs = append(tm.IDs, struct{ Namespace, Name string }{parts[0], parts[1]})
		return tm
	}
	l1 := &term{Kind: tLabels, Set: set("x", "1")}
	l2 := &term{Kind: tLabels, Set: set("x", "2")}
	return []*term{
		{Kind: tNull},
		{Kind: tAll},
		l1,
		l2,
		ns("a/"),
		ns("a/p"),
		{Kind: tNot, Children: []*term{l1}},
		{Kind: tAnd, Children: []*term{ns("a/"), l1}},
		{Kind: tOr, Children: []*term{l1, l2}},
		{Kind: tLabelSelector, Sel: selSpec{Exprs: []selReq{{Key: "x", Op: "In", Values: []string{"1", "2"}}}}},
		{Kind: tLabelSelector, Sel: selSpec{Exprs: []selReq{{Key: "x", Op: "DoesNotExist"}}}},
		{Kind: tFN, FN: 2},
	}
}

type cacheKeyDef struct{ ns, name string }

var cacheKeys = []cacheKeyDef{{"a", "p"}, {"a", "q"}, {"b", "p"}, {"b", "q"}, {"", "p"}, // the last one: a cluster-scoped object (no namespace)
	// two different namespace/name pairs whose "namespace/name" renderings coincide (the cache accepts
	// any metav1.Object; identity is the pair, not a joined string)
	{"a/b", "c"}, {"a", "b/c"}}

func genVersion() *rapid.Generator[string] {
	return rapid.Custom(func(t *rapid.T) string {
		switch rapid.IntRange(0, 21).Draw(t, "vkind") {
		case 20, 21:
			// the ends of the integer range (Atoi accepts them): differences between two of them overflow
			return rapid.SampledFrom([]string{"9223372036854775807", "9223372036854775806", "-9223372036854775808", "-9223372036854775807", "4611686018427387904", "-4611686018427387905", "-2"}).Draw(t, "extreme")
		case 0:
			return rapid.SampledFrom([]string{"", "abc", "1.5", "0x3", " 7", "7 ", "99999999999999999999", "-", "1e3"}).Draw(t, "malformed")
		case 1:
			return rapid.SampledFrom([]string{"0", "-1", "-2", "+3", "007", "-0"}).Draw(t, "odd")
		case 2:
			return strconv.Itoa(rapid.IntRange(13, 40).Draw(t, "big"))
		default:
			return strconv.Itoa(rapid.IntRange(1, 12).Draw(t, "v"))
		}
	})
}

func genObject() *rapid.Generator[metav1.Object] {
	return rapid.Custom(func(t *rapid.T) metav1.Object {
		k := rapid.SampledFrom(cacheKeys).Draw(t, "key")
		var labels map[string]string
		if x := rapid.SampledFrom([]string{"", "1", "2"}).Draw(t, "x"); x != "" {
			labels = map[string]string{"x": x}
		}
		p := mkPod(k.ns, k.name, genVersion().Draw(t, "rv"), labels)
		// incarnations: the same namespace/name can come back with another UID (deleted and re-created
		// while nobody watched); the cache is keyed by namespace/name and versions alone
		if uid := rapid.SampledFrom([]string{"", "", "u1", "u2"}).Draw(t, "uid"); uid != "" {
			p.SetUID(types.UID(uid))
		}
		return p
	})
}

// wideKeys: 24 further keys, used by one list in six so that a single sync or
// refilter produces batches of a dozen and more events (with repeated keys).
var wideKeys = func() []cacheKeyDef {
	var ks []cacheKeyDef
	for i := 0; i < 24; i++ {
		ks = append(ks, cacheKeyDef{"w", fmt.Sprintf("k%02d", i)})
	}
	return ks
}()

func genObjList() *rapid.Generator[[]metav1.Object] {
	return rapid.Custom(func(t *rapid.T) []metav1.Object {
		if rapid.IntRange(0, 5).Draw(t, "wide") == 0 {
			n := rapid.IntRange(13, 40).Draw(t, "nwide")
			out := make([]metav1.Object, 0, n)
			for i := 0; i < n; i++ {
				k := rapid.SampledFrom(wideKeys).Draw(t, "wkey")
				var labels map[string]string
				if x := rapid.SampledFrom([]string{"", "1", "2"}).Draw(t, "x"); x != "" {
					labels = map[string]string{"x": x}
				}
				out = append(out, mkPod(k.ns, k.name, strconv.Itoa(rapid.IntRange(1, 9).Draw(t, "wv")), labels))
			}
			return out
		}
		dupes := rapid.IntRange(0, 3).Draw(t, "dupes") == 0
		n := rapid.IntRange(0, 10).Draw(t, "n")
		var out []metav1.Object
		seen := map[string]bool{}
		for i := 0; i < n; i++ {
			o := genObject().Draw(t, "o")
			if seen[objKey(o)] && !dupes {
				continue
			}
			seen[objKey(o)] = true
			out = append(out, o)
		}
		return out
	})
}

type cacheOp struct {
	Kind   string // sync, update, refilter
	Type   kcache.EventType
	Obj    metav1.Object
	List   []metav1.Object
	Filter int
}

func (o cacheOp) String() string {
	switch o.Kind {
	case "update":
		return fmt.Sprintf("update(%s %s)", o.Type, objStr(o.Obj))
	case "sync":
		return fmt.Sprintf("sync(%s)", fmtObjsOrdered(o.List))
	default:
		return fmt.Sprintf("refilter(%s, filter#%d)", fmtObjsOrdered(o.List), o.Filter)
	}
}

func fmtObjsOrdered(objs []metav1.Object) string {
	s := make([]string, len(objs))
	for i, o := range objs {
		s[i] = objStr(o)
	}
	return "[" + strings.Join(s, " ") + "]"
}

// opNontrivial: what makes an operation interesting for C01 / C02.
func listHasDupOrMalformed(list []metav1.Object) bool {
	seen := map[string]bool{}
	for _, o := range list {
		if seen[objKey(o)] {
			return true
		}
		seen[objKey(o)] = true
		if _, ok := parseVersion(o); !ok {
			return true
		}
	}
	return false
}

// realCache wraps the hooked cache with bounded calls so that a wedge is
// reported instead of hanging the run.
type realCache struct {
	c      kcache.VerifCache
	cancel context.CancelFunc
}

func newRealCache(f *term) *realCache {
	ctx, cancel := context.WithCancel(context.Background())
	c := kcache.NewVerifCache(ctx, newPlog(false, 1), nil, f.build())
	return &realCache{c, cancel}
}

func (r *realCache) close() bool {
	r.cancel()
	select {
	case <-r.c.Done():
		return true
	case <-time.After(20 * time.Second):
		return false
	}
}

type failer interface {
	Fatalf(format string, args ...interface{})
}

func (r *realCache) content(t failer) map[string]metav1.Object {
	objs, err := r.c.List()
	if err != nil {
		t.Fatalf("C01 violation: List() failed on a running cache: %v", err)
	}
	c, msg := contentOf(objs)
	if msg != "" {
		t.Fatalf("C01 violation: %s", msg)
	}
	return c
}

func (r *realCache) apply(t failer, op cacheOp, fam []*term) []evRec {
	type res struct {
		evs []kcache.Event
		err error
	}
	ch := make(chan res, 1)
	go func() {
		var evs []kcache.Event
		var err error
		switch op.Kind {
		case "update":
			evs, err = r.c.Update(kcache.NewEvent(op.Type, op.Obj))
		case "sync":
			evs, err = r.c.Sync(op.List)
		case "refilter":
			evs, err = r.c.Refilter(op.List, fam[op.Filter].build())
		}
		ch <- res{evs, err}
	}()
	select {
	case x := <-ch:
		if x.err != nil {
			t.Fatalf("C01 violation: %s failed on a running cache: %v", op, x.err)
		}
		return recEvents(x.evs)
	case <-time.After(20 * time.Second):
		t.Fatalf("C01 violation: WEDGE: %s did not return within 20s", op)
	}
	return nil
}

// checkStep applies one op to the real cache and checks the oracle of prop.
func cacheCheckStep(t failer, prop string, rc *realCache, m *cacheModel, fam []*term, op cacheOp) (changed bool, nevents int) {
	traceOp("%s", op)
	before := rc.content(t)
	acceptBefore := m.accept
	var exp map[string]expect
	switch op.Kind {
	case "update":
		exp = m.predictUpdate(op.Type, op.Obj)
	case "sync":
		exp = m.predictSync(op.List)
	case "refilter":
		m.accept = fam[op.Filter].eval
		exp = m.predictSync(op.List)
	}
	acceptNow := m.accept
	evs := rc.apply(t, op, fam)
	after := rc.content(t)
	if prop == "C01" {
		if msg := m.commit(exp, after); msg != "" {
			t.Fatalf("C01 violation: after %s: %s (content before: %s, after: %s)", op, msg, fmtContent(before), fmtContent(after))
		}
		// Get agrees with List for every key of the universe
		for _, k := range cacheKeys {
			got, err := rc.c.Get(k.ns, k.name)
			if err != nil {
				t.Fatalf("C01 violation: Get failed: %v", err)
			}
			want := after[keyStr(k.ns, k.name)]
			if (got == nil) != (want == nil) || (got != nil && got != want) {
				t.Fatalf("C01 violation: after %s: Get(%s/%s)=%s but List has %s", op, k.ns, k.name, objStr(got), objStr(want))
			}
		}
	} else {
		// keep the model in step without judging (C02 judges the delta only)
		next := map[string]mEntry{}
		for k, o := range after {
			next[k] = mEntry{objVersion(o), o}
		}
		m.items = next
		if msg := checkDelta(before, after, evs); msg != "" {
			t.Fatalf("C02 violation: %s: %s", op, msg)
		}
		// the inputs the statement names as changing nothing must emit no event at all
		if why := c02NoopInput(op, before, acceptBefore, acceptNow); why != "" && len(evs) != 0 {
			t.Fatalf("C02 violation: %s is %s and must change nothing, but %d events were emitted: %v (content before: %s)", op, why, len(evs), evs, fmtContent(before))
		}
	}
	changed = len(before) != len(after)
	if !changed {
		for k, o := range before {
			if after[k] != o {
				changed = true
			}
		}
	}
	return changed, len(evs)
}

func cacheWalk(t *testing.T, prop string) { rapid.Check(t, cacheWalkProp(prop)) }

// FuzzC01 / FuzzC02: the cache state machine under Go's coverage-guided fuzzer (thorough tier).
func FuzzC01(f *testing.F) { f.Fuzz(rapid.MakeFuzz(cacheWalkProp("C01"))) }
func FuzzC02(f *testing.F) { f.Fuzz(rapid.MakeFuzz(cacheWalkProp("C02"))) }

func cacheWalkProp(prop string) func(*rapid.T) {
	fam := cacheFilterFamily()
	return func(t *rapid.T) {
		f0 := rapid.IntRange(0, len(fam)-1).Draw(t, "filter0")
		rc := newRealCache(fam[f0])
		defer func() {
			if !rc.close() {
				t.Fatalf("%s violation: WEDGE: cache did not shut down within 20s", prop)
			}
		}()
		m := newCacheModel(fam[f0].eval)
		traceOp("new cache filter#%d %s", f0, fam[f0])
		var ops []string
		ops = append(ops, fmt.Sprintf("filter#%d=%s", f0, fam[f0]))
		var stale, rejecting, dupmal, unchanged, multi bool
		t.Repeat(map[string]func(*rapid.T){
			"update": func(t *rapid.T) {
				op := cacheOp{Kind: "update", Type: rapid.SampledFrom([]kcache.EventType{kcache.EventTypeCreate, kcache.EventTypeUpdate, kcache.EventTypeDelete}).Draw(t, "type"), Obj: genObject().Draw(t, "obj")}
				if cur, ok := m.items[objKey(op.Obj)]; ok {
					if v, num := parseVersion(op.Obj); num && v <= cur.ver {
						stale = true
					}
					if !m.accept(op.Obj) {
						rejecting = true
					}
				}
				if _, num := parseVersion(op.Obj); !num {
					dupmal = true
				}
				ops = append(ops, op.String())
				ch, n := cacheCheckStep(t, prop, rc, m, fam, op)
				unchanged = unchanged || !ch
				multi = multi || n >= 2
			},
			"sync": func(t *rapid.T) {
				op := cacheOp{Kind: "sync", List: genObjList().Draw(t, "list")}
				for _, o := range op.List {
					if cur, ok := m.items[objKey(o)]; ok {
						if v, num := parseVersion(o); num && v <= cur.ver {
							stale = true
						}
					}
				}
				dupmal = dupmal || listHasDupOrMalformed(op.List)
				ops = append(ops, op.String())
				ch, n := cacheCheckStep(t, prop, rc, m, fam, op)
				unchanged = unchanged || !ch
				multi = multi || n >= 2
			},
			"resync": func(t *rapid.T) {
				// an unchanged relist / a relist of the current content with small edits
				var list []metav1.Object
				for _, e := range m.items {
					if rapid.IntRange(0, 5).Draw(t, "drop") != 0 {
						list = append(list, e.obj)
					}
				}
				op := cacheOp{Kind: "sync", List: list}
				ops = append(ops, op.String())
				ch, n := cacheCheckStep(t, prop, rc, m, fam, op)
				unchanged = unchanged || !ch
				multi = multi || n >= 2
			},
			"refilter": func(t *rapid.T) {
				op := cacheOp{Kind: "refilter", Filter: rapid.IntRange(0, len(fam)-1).Draw(t, "filter")}
				if rapid.Bool().Draw(t, "fresh") {
					op.List = genObjList().Draw(t, "list")
				} else {
					// the parent's listing: current content, possibly with extra and newer objects
					for _, e := range m.items {
						op.List = append(op.List, e.obj)
					}
					extra := genObjList().Draw(t, "extra")
					seen := map[string]bool{}
					for _, o := range op.List {
						seen[objKey(o)] = true
					}
					for _, o := range extra {
						if !seen[objKey(o)] {
							seen[objKey(o)] = true
							op.List = append(op.List, o)
						}
					}
				}
				for _, e := range m.items {
					if !fam[op.Filter].eval(e.obj) {
						rejecting = true
					}
				}
				dupmal = dupmal || listHasDupOrMalformed(op.List)
				ops = append(ops, op.String())
				ch, n := cacheCheckStep(t, prop, rc, m, fam, op)
				unchanged = unchanged || !ch
				multi = multi || n >= 2
			},
		})
		var nt bool
		if prop == "C01" {
			nt = stale || rejecting || dupmal
		} else {
			nt = unchanged && multi
		}
		var labels []string
		for name, on := range map[string]bool{"stale_version": stale, "rejecting_filter_on_cached": rejecting, "dup_or_malformed": dupmal, "noop_operation": unchanged, "multi_event_batch": multi} {
			if on {
				labels = append(labels, name)
			}
		}
		desc := strings.Join(ops, "; ")
		statCase(prop, hashString(desc), nt, func() interface{} { return ops }, labels...)
	}
}

func TestC01_Random(t *testing.T) { cacheWalk(t, "C01") }
func TestC02_Random(t *testing.T) { cacheWalk(t, "C02") }

// ---------------------------------------------------------------- exhaustive universe

// The universe named in the property: 2 keys x versions 0..5 x 2 label values
// x 4 filters {accept-all, label=1, label=2, reject-all}.

type enumObjSpec struct {
	present bool
	ver     int
	label   string
}

func enumObjSpecs() []enumObjSpec {
	out := []enumObjSpec{{}}
	for v := 0; v <= 5; v++ {
		for _, l := range []string{"1", "2"} {
			out = append(out, enumObjSpec{true, v, l})
		}
	}
	return out
}

func enumFilters() []*term {
	return []*term{
		{Kind: tNull},
		{Kind: tLabels, Set: map[string]string{"x": "1"}},
		{Kind: tLabels, Set: map[string]string{"x": "2"}},
		{Kind: tAll},
	}
}

func (s enumObjSpec) obj(name string) metav1.Object {
	return mkPod("a", name, strconv.Itoa(s.ver), map[string]string{"x": s.label})
}

func cacheEnum(t *testing.T, prop string) {
	specs := enumObjSpecs()
	fam := enumFilters()
	names := []string{"p", "q"}
	shard, nshards := shardOf()
	stride := envInt("VERIF_ENUM_STRIDE", 1) // quick: every stride-th state
	offset := int(envInt("VERIF_SEED", 1)) % stride
	if offset < 0 {
		offset = -offset
	}
	stateIdx := 0
	var states, apps int64
	saved := cacheKeys
	cacheKeys = []cacheKeyDef{{"a", "p"}, {"a", "q"}}
	defer func() { cacheKeys = saved }()

	type stateDef struct {
		f    int
		s    [2]enumObjSpec
		list []metav1.Object
	}
	fail := &enumFailer{t: t, prop: prop}
	rc := newRealCache(fam[0])
	defer rc.close()
	for fi, f := range fam {
		for _, s0 := range specs {
			for _, s1 := range specs {
				st := stateDef{f: fi, s: [2]enumObjSpec{s0, s1}}
				ok := true
				for i, s := range st.s {
					if s.present {
						o := s.obj(names[i])
						if !f.eval(o) {
							ok = false
						}
					}
				}
				if !ok {
					continue // not a reachable content under this filter
				}
				stateIdx++
				if stateIdx%nshards != shard || (stateIdx/nshards)%stride != offset {
					continue
				}
				states++
				// every next operation from this state
				var ops []cacheOp
				for _, typ := range []kcache.EventType{kcache.EventTypeCreate, kcache.EventTypeUpdate, kcache.EventTypeDelete} {
					for i := range names {
						for _, s := range specs[1:] {
							ops = append(ops, cacheOp{Kind: "update", Type: typ, Obj: s.obj(names[i])})
						}
					}
				}
				var lists [][]metav1.Object
				for _, a := range specs {
					for _, b := range specs {
						var l []metav1.Object
						if a.present {
							l = append(l, a.obj(names[0]))
						}
						if b.present {
							l = append(l, b.obj(names[1]))
						}
						lists = append(lists, l)
					}
				}
				for _, l := range lists {
					ops = append(ops, cacheOp{Kind: "sync", List: l})
					for nf := range fam {
						ops = append(ops, cacheOp{Kind: "refilter", List: l, Filter: nf})
					}
				}
				// all two-element duplicate lists for one key
				for i := range names {
					for _, a := range specs[1:] {
						for _, b := range specs[1:] {
							ops = append(ops, cacheOp{Kind: "sync", List: []metav1.Object{a.obj(names[i]), b.obj(names[i])}})
						}
					}
				}
				for _, op := range ops {
					// install the state on the real cache: empty it, then load it under the state's filter
					var stateList []metav1.Object
					for i, s := range st.s {
						if s.present {
							stateList = append(stateList, s.obj(names[i]))
						}
					}
					rc.apply(fail, cacheOp{Kind: "refilter", List: nil, Filter: 0}, fam)
					rc.apply(fail, cacheOp{Kind: "refilter", List: stateList, Filter: st.f}, fam)
					m := newCacheModel(fam[st.f].eval)
					for _, o := range stateList {
						m.items[objKey(o)] = mEntry{objVersion(o), o}
					}
					fail.ctx = fmt.Sprintf("state filter#%d %s", st.f, fmtObjsOrdered(stateList))
					cacheCheckStep(fail, prop, rc, m, fam, op)
					apps++
				}
				caseDesc := fmt.Sprintf("filter#%d %v %v", st.f, st.s[0], st.s[1])
				nops := len(ops)
				statCase(prop, hashString(caseDesc), st.s[0].present || st.s[1].present, func() interface{} {
					return map[string]interface{}{"mode": "enumerated", "state": caseDesc, "next_operations_applied": nops}
				}, "enum_state")
			}
		}
	}
	statMu.Lock()
	p := statFor(prop)
	p.Evaluations += apps - states
	p.Labels["enum_applications"] += apps
	statMu.Unlock()
	if shard == 0 {
		what := fmt.Sprintf("2 keys x versions 0..5 x 2 labels x 4 filters: from every reachable state every single next operation (72 updates, 169 duplicate-free lists for sync, 169x4 refilters, 288 two-element duplicate lists)")
		if stride > 1 {
			what += fmt.Sprintf(" — this run: every %d-th state only (not exhaustive)", stride)
		}
		statExhaustive(prop, what)
	}
}

type enumFailer struct {
	t    *testing.T
	prop string
	ctx  string
}

func (f *enumFailer) Fatalf(format string, args ...interface{}) {
	msg := fmt.Sprintf(format, args...) + " [" + f.ctx + "]"
	writeEnumReplay(f.t, f.prop, f.t.Name(), f.ctx, msg)
	f.t.Fatalf("%s", msg)
}

func TestC01_Enum(t *testing.T) { cacheEnum(t, "C01") }
func TestC02_Enum(t *testing.T) { cacheEnum(t, "C02") }

// c02NoopInput classifies the inputs that the C02 statement lists as changing
// nothing: a redelivered or stale version of a cached object, a delete of an
// unknown key, a rejected unknown object, an unchanged relist.  It returns a
// description, or "" when the operation is none of these.
func c02NoopInput(op cacheOp, before map[string]metav1.Object, acceptBefore, acceptNow func(metav1.Object) bool) string {
	switch op.Kind {
	case "update":
		k := objKey(op.Obj)
		cur, found := before[k]
		v, numeric := parseVersion(op.Obj)
		if !numeric {
			return ""
		}
		if op.Type == kcache.EventTypeDelete {
			if !found {
				return "a delete of an unknown key"
			}
			return ""
		}
		if found && v <= objVersion(cur) {
			return "a redelivered or stale version of a cached object"
		}
		if !found && !acceptNow(op.Obj) {
			return "a rejected unknown object"
		}
	case "sync":
		if len(op.List) != len(before) {
			return ""
		}
		for _, o := range op.List {
			if before[objKey(o)] != o {
				return ""
			}
		}
		return "an unchanged relist"
	}
	return ""
}
