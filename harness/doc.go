// Package verifharness holds the property-based verification harness for
// boz/kcache.  All checks live in _test.go files built with -tags verif.
package verifharness
