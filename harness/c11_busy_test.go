//go:build verif

package verifharness

// C11 (continued) — the shutdown trigger lands while the controller is BUSY:
// its controller-level filter blocks on a harness channel while the cache
// applies the k-th list (the initial one or a relist; the watch hangs, so lists
// are the only source) or a watch event.  While it is stuck the trigger fires
// (context cancellation, Close, several Closes, or both), optionally the
// harness waits until every other goroutine has reacted and parked (watcher,
// lister and cache have then stopped on the context by themselves, the
// controller goroutine has not noticed anything yet), and only then the filter
// returns.  Whatever the controller finds when it carries on - a cache that
// refuses the sync, a watcher that refuses the reset, a pending shutdown
// request - the cascade must run: Done() of the controller and of every
// descendant closes, every Events() channel is closed, Close() returns, no
// goroutine is left.

import (
	"context"
	"fmt"
	"strings"
	"sync"
	"testing"
	"time"

	"github.com/boz/kcache"
	"github.com/boz/kcache/filter"
	metav1 "k8s.io/apimachinery/pkg/apis/meta/v1"
	"pgregory.net/rapid"
)

func TestC11_ShutdownWhileApplying(t *testing.T) {
	fam := treeFilterFamily()
	rapid.Check(t, func(t *rapid.T) {
		via := rapid.SampledFrom([]string{"list", "list", "watch"}).Draw(t, "via")
		atList := 1
		if via == "list" {
			atList = rapid.IntRange(1, 3).Draw(t, "atList")
		}
		trigger := rapid.SampledFrom([]string{"cancel", "cancel", "close", "closeN", "cancel+close"}).Draw(t, "trigger")
		settle := rapid.IntRange(0, 3).Draw(t, "settle") > 0 // let everything else react before the filter returns
		a := newFakeAPI()
		a.watchHang = via == "list"
		var hist []string
		h := func(format string, args ...interface{}) { hist = append(hist, fmt.Sprintf(format, args...)) }
		for i, n := 0, rapid.IntRange(0, 3).Draw(t, "initial"); i < n; i++ {
			k := rapid.SampledFrom([][2]string{{"a", "p"}, {"a", "q"}, {"b", "p"}}).Draw(t, "k")
			a.put(k[0], k[1], drawLabels(t))
		}
		if via == "list" && atList == 1 {
			a.put("a", "trigger", nil)
		}
		gate := make(chan struct{})
		entered := make(chan struct{}, 1)
		var once sync.Once
		blocker := filter.FN(func(o metav1.Object) bool {
			if o.GetName() == "trigger" {
				once.Do(func() {
					entered <- struct{}{}
					<-gate
				})
			}
			return true
		})
		before, _ := libGoroutines()
		ctx, cancel := context.WithCancel(context.Background())
		defer cancel()
		plog := newPlog(rapid.Bool().Draw(t, "perturb"), rapid.Uint64().Draw(t, "pseed"))
		b := kcache.NewBuilder().Context(ctx).Log(plog).Client(a).Filter(blocker)
		period := time.Hour
		if via == "list" && atList > 1 {
			period = time.Duration(rapid.IntRange(1, 4).Draw(t, "periodMs")) * time.Millisecond
		}
		b.Lister().RefreshPeriod(period)
		root, err := b.Create()
		if err != nil {
			t.Fatalf("create: %v", err)
		}
		released := false
		defer func() {
			if !released {
				close(gate)
			}
			cancel()
			go root.Close()
		}()
		fail := func(format string, args ...interface{}) {
			setWedgeSeen()
			_, dump := libGoroutines()
			if len(dump) > 5000 {
				dump = dump[:5000]
			}
			t.Fatalf("C11 violation: %s\n  scenario: the controller's filter blocks while the cache applies %s; trigger %s; settle=%v\n  history: %s\n%s",
				fmt.Sprintf(format, args...), map[bool]string{true: fmt.Sprintf("list #%d", atList), false: "a watch event"}[via == "list"], trigger, settle, strings.Join(hist, "; "), dump)
		}
		// the tree
		type desc struct {
			name string
			done <-chan struct{}
			eof  chan struct{} // closed when Events() was seen closed (nil: no event channel)
		}
		var descs []desc
		drain := func(ch <-chan kcache.Event) chan struct{} {
			eof := make(chan struct{})
			go func() {
				for range ch {
				}
				close(eof)
			}()
			return eof
		}
		var pubs []kcache.Publisher
		pubs = append(pubs, root)
		for i, n := 0, rapid.IntRange(1, 6).Draw(t, "ndesc"); i < n; i++ {
			p := pubs[rapid.IntRange(0, len(pubs)-1).Draw(t, "parent")]
			fi := rapid.SampledFrom([]int{0, 1, 2, 3, 5}).Draw(t, "f")
			kind := rapid.SampledFrom([]string{"sub", "fsub", "dsub", "clone", "fclone", "mon"}).Draw(t, "kind")
			name := fmt.Sprintf("n%d(%s)", i+1, kind)
			h("attach %s", name)
			switch kind {
			case "sub":
				x, err := p.Subscribe()
				if err != nil {
					fail("Subscribe on a running publisher: %v", err)
				}
				descs = append(descs, desc{name, x.Done(), drain(x.Events())})
			case "fsub":
				x, err := p.SubscribeWithFilter(fam[fi].build())
				if err != nil {
					fail("SubscribeWithFilter on a running publisher: %v", err)
				}
				descs = append(descs, desc{name, x.Done(), drain(x.Events())})
			case "dsub":
				x, err := p.SubscribeForFilter()
				if err != nil {
					fail("SubscribeForFilter on a running publisher: %v", err)
				}
				descs = append(descs, desc{name, x.Done(), drain(x.Events())})
			case "clone":
				x, err := p.Clone()
				if err != nil {
					fail("Clone on a running publisher: %v", err)
				}
				descs = append(descs, desc{name, x.Done(), nil})
				pubs = append(pubs, x)
			case "fclone":
				x, err := p.CloneWithFilter(fam[fi].build())
				if err != nil {
					fail("CloneWithFilter on a running publisher: %v", err)
				}
				descs = append(descs, desc{name, x.Done(), nil})
				pubs = append(pubs, x)
			case "mon":
				m, err := kcache.NewMonitor(p, newCbLog().handler())
				if err != nil {
					fail("NewMonitor on a running publisher: %v", err)
				}
				descs = append(descs, desc{name, m.Done(), nil})
			}
		}
		// reach the blocking point
		if !(via == "list" && atList == 1) {
			if !waitWedge(root.Ready()) {
				fail("WEDGE: the controller never became ready")
			}
			deadline := time.Now().Add(wedgeBoundNow())
			for via == "list" && a.listCount() < atList-1 {
				if time.Now().After(deadline) {
					fail("WEDGE: relisting stopped after %d lists", a.listCount())
				}
				time.Sleep(200 * time.Microsecond)
			}
			rv := a.put("a", "trigger", nil)
			h("put a/trigger -> rv %d", rv)
		}
		select {
		case <-entered:
		case <-time.After(wedgeBoundNow()):
			fail("WEDGE: the trigger object never reached the controller's filter")
		}
		h("the filter blocks (list calls so far: %d)", a.listCount())
		// the shutdown trigger, while the controller is stuck
		closers := 0
		switch trigger {
		case "cancel":
			cancel()
		case "close":
			closers = 1
		case "closeN":
			closers = 3
		case "cancel+close":
			cancel()
			closers = 1
		}
		closed := make(chan struct{}, closers)
		for i := 0; i < closers; i++ {
			go func() { root.Close(); closed <- struct{}{} }()
		}
		if settle {
			if !waitQuiescent(wedgeBoundNow()) {
				statSlow("harness-quiescence")
			}
		}
		h("trigger %s fired; the filter returns", trigger)
		close(gate)
		released = true
		for i := 0; i < closers; i++ {
			select {
			case <-closed:
			case <-time.After(wedgeBoundNow()):
				fail("WEDGE: Close() did not return")
			}
		}
		if !waitWedge(root.Done()) {
			fail("WEDGE: Done() of the controller never closed")
		}
		for _, d := range descs {
			if !waitWedge(d.done) {
				fail("the controller is done but Done() of its descendant %s never closed: the shutdown did not cascade", d.name)
			}
			if d.eof != nil && !waitWedge(d.eof) {
				fail("the controller is done but Events() of its descendant %s was never closed", d.name)
			}
		}
		cancel()
		if c, dump := waitLibGoroutinesAtMost(before, wedgeBoundNow()); c > before {
			t.Fatalf("C11 violation: %d library goroutines left after a shutdown (%s) that landed while the controller was applying %s:\n%s", c-before, trigger, via, dump)
		}
		label := via
		if via == "list" {
			label = fmt.Sprintf("list%d", atList)
		}
		statCase("C11", hashString("busy;"+label+";"+trigger+fmt.Sprint(settle)+strings.Join(hist, ";")), len(descs) >= 2, func() interface{} {
			return map[string]interface{}{"mode": "shutdown while the controller is applying " + label, "trigger": trigger, "settled_before_release": settle, "history": hist}
		}, "busy_controller", "busy_via_"+label, "busy_trigger_"+trigger, fmt.Sprintf("busy_settled=%v", settle))
	})
}
