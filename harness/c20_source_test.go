//go:build verif

package verifharness

// C20(a) — the generated typed and join sources equal their templates
// instantiated for the type.  The instantiation commands are read from the
// repository's Makefile (generate-types: 12 lines, generate-joins: 8 lines:
// the enumerated domain).  The typed template (types/gen/template.go) is
// instantiated by AST rewriting (identifier ObjectType -> the type, removal
// of the generic.Type declaration); the join template is the text/template
// literal extracted from join/gen/main.go by parsing that file.  Comparison
// is structural on the go/ast of every declaration (imports, comments,
// positions and formatting are ignored).

import (
	"bytes"
	"fmt"
	"go/ast"
	"go/parser"
	"go/token"
	"os"
	"path/filepath"
	"reflect"
	"regexp"
	"strconv"
	"strings"
	"testing"
	"text/template"
)

func repoRoot() string {
	if v := os.Getenv("VERIF_REPO"); v != "" {
		return v
	}
	return "/repo"
}

var (
	gennyRe = regexp.MustCompile(`genny -in=(\S+) -out=(\S+) -pkg=(\S+) gen '(\w+)=([^']+)'`)
	joinRe  = regexp.MustCompile(`\./join/gen/gen\s+(\S+)\s+(\S+)\s+'([^']+)'\s+(\S+)\s+(\S+)\s+>\s+(\S+)`)
)

type astPosType = token.Pos

var (
	posType     = reflect.TypeOf(token.NoPos)
	objPtrType  = reflect.TypeOf((*ast.Object)(nil))
	scopeType   = reflect.TypeOf((*ast.Scope)(nil))
	commentType = reflect.TypeOf((*ast.CommentGroup)(nil))
)

// astEqual: structural equality ignoring positions, comments and resolution data.
func astEqual(a, b reflect.Value, path string) string {
	if a.Kind() == reflect.Interface || b.Kind() == reflect.Interface {
		if a.Kind() == reflect.Interface {
			if a.IsNil() {
				if b.Kind() == reflect.Interface && b.IsNil() {
					return ""
				}
				return path + ": nil vs non-nil"
			}
			a = a.Elem()
		}
		if b.Kind() == reflect.Interface {
			if b.IsNil() {
				return path + ": non-nil vs nil"
			}
			b = b.Elem()
		}
	}
	if a.Type() != b.Type() {
		return fmt.Sprintf("%s: node types differ: %s vs %s", path, a.Type(), b.Type())
	}
	switch a.Type() {
	case posType:
		// a position is only compared for presence where it carries meaning (e.g. Lparen of grouped decls is cosmetic)
		return ""
	case objPtrType, scopeType, commentType:
		return ""
	}
	switch a.Kind() {
	case reflect.Ptr:
		if a.IsNil() || b.IsNil() {
			if a.IsNil() != b.IsNil() {
				return path + ": nil vs non-nil"
			}
			return ""
		}
		return astEqual(a.Elem(), b.Elem(), path)
	case reflect.Struct:
		for i := 0; i < a.NumField(); i++ {
			if msg := astEqual(a.Field(i), b.Field(i), path+"."+a.Type().Field(i).Name); msg != "" {
				return msg
			}
		}
		return ""
	case reflect.Slice:
		if a.Len() != b.Len() {
			return fmt.Sprintf("%s: %d vs %d elements", path, a.Len(), b.Len())
		}
		for i := 0; i < a.Len(); i++ {
			if msg := astEqual(a.Index(i), b.Index(i), fmt.Sprintf("%s[%d]", path, i)); msg != "" {
				return msg
			}
		}
		return ""
	case reflect.String:
		if a.String() != b.String() {
			return fmt.Sprintf("%s: %q vs %q", path, a.String(), b.String())
		}
		return ""
	case reflect.Int, reflect.Int64, reflect.Int32:
		if a.Int() != b.Int() {
			return fmt.Sprintf("%s: %d vs %d", path, a.Int(), b.Int())
		}
		return ""
	case reflect.Bool:
		if a.Bool() != b.Bool() {
			return path + ": bool differs"
		}
		return ""
	case reflect.Map:
		return ""
	}
	return ""
}

// substituteIdent replaces every identifier `name` in expression position by
// a fresh copy of the expression parsed from repl.
func substituteIdent(v reflect.Value, name string, repl string) {
	switch v.Kind() {
	case reflect.Interface:
		if v.IsNil() {
			return
		}
		if id, ok := v.Interface().(*ast.Ident); ok && id.Name == name && v.CanSet() {
			e, err := parser.ParseExpr(repl)
			if err != nil {
				panic(err)
			}
			v.Set(reflect.ValueOf(e))
			return
		}
		substituteIdent(v.Elem(), name, repl)
	case reflect.Ptr:
		if v.IsNil() {
			return
		}
		switch v.Type() {
		case objPtrType, scopeType, commentType:
			return
		}
		substituteIdent(v.Elem(), name, repl)
	case reflect.Struct:
		for i := 0; i < v.NumField(); i++ {
			substituteIdent(v.Field(i), name, repl)
		}
	case reflect.Slice:
		for i := 0; i < v.Len(); i++ {
			substituteIdent(v.Index(i), name, repl)
		}
	}
}

func declName(d ast.Decl) string {
	switch x := d.(type) {
	case *ast.FuncDecl:
		recv := ""
		if x.Recv != nil && len(x.Recv.List) > 0 {
			var b bytes.Buffer
			fmt.Fprintf(&b, "%v", exprString(x.Recv.List[0].Type))
			recv = "(" + b.String() + ")."
		}
		return "func " + recv + x.Name.Name
	case *ast.GenDecl:
		var names []string
		for _, s := range x.Specs {
			switch sp := s.(type) {
			case *ast.TypeSpec:
				names = append(names, "type "+sp.Name.Name)
			case *ast.ValueSpec:
				for _, n := range sp.Names {
					names = append(names, x.Tok.String()+" "+n.Name)
				}
			case *ast.ImportSpec:
				names = append(names, "import")
			}
		}
		return strings.Join(names, ",")
	}
	return "?"
}

func exprString(e ast.Expr) string {
	switch x := e.(type) {
	case *ast.Ident:
		return x.Name
	case *ast.StarExpr:
		return "*" + exprString(x.X)
	case *ast.SelectorExpr:
		return exprString(x.X) + "." + x.Sel.Name
	}
	return fmt.Sprintf("%T", e)
}

func nonImportDecls(f *ast.File) []ast.Decl {
	var out []ast.Decl
	for _, d := range f.Decls {
		if g, ok := d.(*ast.GenDecl); ok && g.Tok == token.IMPORT {
			continue
		}
		out = append(out, d)
	}
	return out
}

func compareDecls(want, got []ast.Decl) string {
	if len(want) != len(got) {
		wn, gn := map[string]bool{}, map[string]bool{}
		for _, d := range want {
			wn[declName(d)] = true
		}
		for _, d := range got {
			gn[declName(d)] = true
		}
		var missing, extra []string
		for n := range wn {
			if !gn[n] {
				missing = append(missing, n)
			}
		}
		for n := range gn {
			if !wn[n] {
				extra = append(extra, n)
			}
		}
		return fmt.Sprintf("%d declarations expected from the template, %d found (missing %v, extra %v)", len(want), len(got), missing, extra)
	}
	for i := range want {
		if msg := astEqual(reflect.ValueOf(want[i]), reflect.ValueOf(got[i]), declName(want[i])); msg != "" {
			return fmt.Sprintf("declaration %q differs from the instantiated template at %s", declName(got[i]), msg)
		}
	}
	return ""
}

func TestC20_Source(t *testing.T) {
	root := repoRoot()
	mk, err := os.ReadFile(filepath.Join(root, "Makefile"))
	if err != nil {
		t.Fatalf("cannot read Makefile: %v", err)
	}
	fail := func(id, msg string) {
		writeEnumReplay(t, "C20", "TestC20_Source", id, msg)
		t.Fatalf("C20 violation: %s: %s", id, msg)
	}
	typed := gennyRe.FindAllStringSubmatch(string(mk), -1)
	joins := joinRe.FindAllStringSubmatch(string(mk), -1)
	if len(typed) == 0 || len(joins) == 0 {
		t.Fatalf("harness: no instantiation commands found in the Makefile (typed %d, joins %d)", len(typed), len(joins))
	}
	fset := token.NewFileSet()
	for _, m := range typed {
		in, out, pkg, ident, typ := m[1], m[2], m[3], m[4], m[5]
		id := fmt.Sprintf("typed %s (%s=%s)", out, ident, typ)
		tf, err := parser.ParseFile(fset, filepath.Join(root, in), nil, 0)
		if err != nil {
			fail(id, "template does not parse: "+err.Error())
		}
		gf, err := parser.ParseFile(fset, filepath.Join(root, out), nil, 0)
		if err != nil {
			fail(id, "generated file does not parse: "+err.Error())
		}
		if gf.Name.Name != pkg {
			fail(id, fmt.Sprintf("package clause is %q, the Makefile says %q", gf.Name.Name, pkg))
		}
		var want []ast.Decl
		for _, d := range nonImportDecls(tf) {
			if g, ok := d.(*ast.GenDecl); ok && g.Tok == token.TYPE && len(g.Specs) == 1 {
				if ts := g.Specs[0].(*ast.TypeSpec); ts.Name.Name == ident {
					continue // type ObjectType generic.Type
				}
			}
			want = append(want, d)
		}
		for _, d := range want {
			substituteIdent(reflect.ValueOf(d), ident, typ)
		}
		if msg := compareDecls(want, nonImportDecls(gf)); msg != "" {
			fail(id, msg)
		}
		statCase("C20", hashString(id), true, func() interface{} {
			return map[string]interface{}{"mode": "source", "instance": id, "declarations_compared": len(want)}
		}, "source_typed")
	}
	// join template literal from join/gen/main.go
	mf, err := parser.ParseFile(fset, filepath.Join(root, "join/gen/main.go"), nil, 0)
	if err != nil {
		t.Fatalf("harness: join/gen/main.go does not parse: %v", err)
	}
	tmplText := ""
	ast.Inspect(mf, func(n ast.Node) bool {
		vs, ok := n.(*ast.ValueSpec)
		if !ok || len(vs.Names) != 1 || vs.Names[0].Name != "joinTemplate" {
			return true
		}
		ast.Inspect(vs, func(m ast.Node) bool {
			if lit, ok := m.(*ast.BasicLit); ok && lit.Kind == token.STRING && len(lit.Value) > 200 {
				s, err := strconv.Unquote(lit.Value)
				if err == nil {
					tmplText = s
				}
			}
			return true
		})
		return false
	})
	if tmplText == "" {
		t.Fatalf("harness: join template literal not found in join/gen/main.go")
	}
	tmpl, err := template.New("join").Parse(tmplText)
	if err != nil {
		t.Fatalf("harness: join template does not parse: %v", err)
	}
	for _, m := range joins {
		def := map[string]string{"SrcName": m[1], "SrcPkg": m[2], "SrcType": m[3], "DstName": m[4], "DstPkg": m[5]}
		out := strings.TrimPrefix(m[6], "./")
		id := fmt.Sprintf("join %s (%s %s %s -> %s %s)", out, m[1], m[2], m[3], m[4], m[5])
		var buf bytes.Buffer
		if err := tmpl.Execute(&buf, def); err != nil {
			fail(id, "template execution failed: "+err.Error())
		}
		wf, err := parser.ParseFile(fset, "instantiated.go", buf.Bytes(), 0)
		if err != nil {
			fail(id, "instantiated template does not parse: "+err.Error())
		}
		gf, err := parser.ParseFile(fset, filepath.Join(root, out), nil, 0)
		if err != nil {
			fail(id, "generated file does not parse: "+err.Error())
		}
		if msg := compareDecls(nonImportDecls(wf), nonImportDecls(gf)); msg != "" {
			fail(id, msg)
		}
		statCase("C20", hashString(id), true, func() interface{} {
			return map[string]interface{}{"mode": "source", "instance": id}
		}, "source_join")
	}
	statExhaustive("C20", fmt.Sprintf("source level: all %d typed instantiations and all %d join instantiations listed in the Makefile", len(typed), len(joins)))
}
