//go:build verif

package verifharness

// plog: the logger handed to kcache.  kcache logs at almost every step of
// every goroutine, so a logger that yields or sleeps according to a per-case
// pseudo-random stream perturbs the interleaving at exactly the interesting
// points.  It also counts the library's own drop warnings ("event buffer
// overrun", "output buffer full"), which lets the harness observe internal
// drops without a source hook.

import (
	goruntime "runtime"
	"strings"
	"sync/atomic"
	"time"

	logutil "github.com/boz/go-logutil"
)

type plogShared struct {
	perturb  bool
	state    uint64 // splitmix64 state, advanced atomically
	overruns int64  // "event buffer overrun" (subscription / filter subscription)
	wfull    int64  // "output buffer full" (watcher / watch session)
	errors   int64
	calls    int64 // log calls seen
	stallAt  int64 // the log call with this ordinal blocks its goroutine for stallFor (0: none)
	stallFor int64 // nanoseconds
	stalled  int32 // set once the stall has begun
}

type plog struct {
	sh *plogShared
}

func newPlog(perturb bool, seed uint64) *plog {
	return &plog{sh: &plogShared{perturb: perturb, state: seed*2 + 1}}
}

func (l *plog) next() uint64 {
	x := atomic.AddUint64(&l.sh.state, 0x9E3779B97F4A7C15)
	x ^= x >> 30
	x *= 0xBF58476D1CE4E5B9
	x ^= x >> 27
	x *= 0x94D049BB133111EB
	x ^= x >> 31
	return x
}

// armStall: the n-th log call from now blocks the goroutine that makes it for d - a library
// goroutine that is descheduled for a long time at one of its log points.
func (l *plog) armStall(n int64, d time.Duration) {
	atomic.StoreInt64(&l.sh.stallFor, int64(d))
	atomic.StoreInt64(&l.sh.stallAt, atomic.LoadInt64(&l.sh.calls)+n)
}

func (l *plog) stallBegun() bool { return atomic.LoadInt32(&l.sh.stalled) != 0 }

func (l *plog) jitter() {
	if n := atomic.AddInt64(&l.sh.calls, 1); n == atomic.LoadInt64(&l.sh.stallAt) {
		atomic.StoreInt32(&l.sh.stalled, 1)
		time.Sleep(time.Duration(atomic.LoadInt64(&l.sh.stallFor)))
	}
	if !l.sh.perturb {
		return
	}
	r := l.next()
	switch r % 8 {
	case 0, 1, 2:
		goruntime.Gosched()
	case 3:
		time.Sleep(time.Duration((r>>8)%50) * time.Microsecond)
	}
}

func (l *plog) Overruns() int64   { return atomic.LoadInt64(&l.sh.overruns) }
func (l *plog) WatchDrops() int64 { return atomic.LoadInt64(&l.sh.wfull) }

func (l *plog) note(format string) {
	switch {
	case strings.Contains(format, "event buffer overrun"):
		atomic.AddInt64(&l.sh.overruns, 1)
	case strings.Contains(format, "output buffer full"):
		atomic.AddInt64(&l.sh.wfull, 1)
	}
}

func (l *plog) WithComponent(string) logutil.Log    { return l }
func (l *plog) Trace(string, ...interface{}) string { return "" }
func (l *plog) Un(string)                           {}
func (l *plog) Debugf(string, ...interface{})       { l.jitter() }
func (l *plog) Infof(string, ...interface{})        { l.jitter() }
func (l *plog) Warnf(f string, _ ...interface{})    { l.note(f); l.jitter() }
func (l *plog) Errorf(f string, _ ...interface{}) {
	l.note(f)
	atomic.AddInt64(&l.sh.errors, 1)
	l.jitter()
}
func (l *plog) Fatalf(string, ...interface{})                      {}
func (l *plog) ErrWarn(e error, _ string, _ ...interface{}) error  { return e }
func (l *plog) ErrFatal(e error, _ string, _ ...interface{}) error { return e }
func (l *plog) Err(e error, _ string, _ ...interface{}) error      { return e }
