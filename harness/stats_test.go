//go:build verif

package verifharness

// Per-case classification, merged by run.py into evidence/<id>.json.
//
// Every generated (or enumerated) case calls statCase once.  At process exit
// TestMain writes, per property, one JSON summary plus one binary file of the
// 64-bit hashes of the cases that were non-trivial by the property's rule, so
// that the driver can count *distinct* non-trivial cases across shards.

import (
	"encoding/binary"
	"encoding/json"
	"fmt"
	"hash/fnv"
	"os"
	"path/filepath"
	"sort"
	"strconv"
	"strings"
	"sync"
	"testing"
)

type propStats struct {
	Property    string                 `json:"property"`
	Evaluations int64                  `json:"evaluations"`
	Nontrivial  int64                  `json:"nontrivial_total"`
	Labels      map[string]int64       `json:"labels"`
	Samples     []interface{}          `json:"samples"`
	Exhaustive  []string               `json:"exhaustive_runs"`
	Extra       map[string]interface{} `json:"extra"`
	Known       map[string]int64       `json:"known_findings"`
	Excluded    int64                  `json:"excluded_known"`
	Slow        int64                  `json:"slow_waits"`
	hashes      map[uint64]struct{}
	buckets     map[string][]sampleRec
}

var (
	statMu    sync.Mutex
	statProps = map[string]*propStats{}
)

func statFor(prop string) *propStats {
	p := statProps[prop]
	if p == nil {
		p = &propStats{Property: prop, Labels: map[string]int64{}, Extra: map[string]interface{}{}, Known: map[string]int64{}, hashes: map[uint64]struct{}{}}
		statProps[prop] = p
	}
	return p
}

func hashString(s string) uint64 {
	h := fnv.New64a()
	h.Write([]byte(s))
	return h.Sum64()
}

// statCase records one evaluated case.  sample is rendered lazily and only
// for the first few distinct non-trivial cases.
func statCase(prop string, hash uint64, nontrivial bool, sample func() interface{}, labels ...string) {
	statMu.Lock()
	defer statMu.Unlock()
	p := statFor(prop)
	p.Evaluations++
	for _, l := range labels {
		p.Labels[l]++
	}
	if !nontrivial {
		return
	}
	p.Nontrivial++
	if _, ok := p.hashes[hash]; ok {
		return
	}
	p.hashes[hash] = struct{}{}
	if sample == nil {
		return
	}
	// keep, per mode (the case's first label), the samplesPerBucket distinct
	// non-trivial cases with the smallest hashes: spread over the run rather
	// than "the first few", and the same whichever shard saw them first
	hash = mix64(hash) // FNV of near-identical strings differs in few high bits: mix before ordering
	bucket := ""
	if len(labels) > 0 {
		bucket = labels[0]
	}
	if p.buckets == nil {
		p.buckets = map[string][]sampleRec{}
	}
	b := p.buckets[bucket]
	if len(b) < samplesPerBucket {
		if len(b) == 0 && len(p.buckets) >= maxBuckets {
			return
		}
		p.buckets[bucket] = append(b, sampleRec{Hash: hash, Bucket: bucket, Case: sample()})
		return
	}
	worst := 0
	for i := range b {
		if b[i].Hash > b[worst].Hash {
			worst = i
		}
	}
	if hash < b[worst].Hash {
		b[worst] = sampleRec{Hash: hash, Bucket: bucket, Case: sample()}
	}
}

type sampleRec struct {
	Hash   uint64      `json:"hash"`
	Bucket string      `json:"bucket"`
	Case   interface{} `json:"case"`
}

const (
	samplesPerBucket = 2
	maxBuckets       = 12
)

func statLabel(prop string, label string, n int64) {
	statMu.Lock()
	defer statMu.Unlock()
	statFor(prop).Labels[label] += n
}

func statExtraAdd(prop, key string, n int64) {
	statMu.Lock()
	defer statMu.Unlock()
	p := statFor(prop)
	cur, _ := p.Extra[key].(int64)
	p.Extra[key] = cur + n
}

func statExhaustive(prop, what string) {
	statMu.Lock()
	defer statMu.Unlock()
	p := statFor(prop)
	p.Exhaustive = append(p.Exhaustive, what)
}

func statSlow(prop string) {
	statMu.Lock()
	defer statMu.Unlock()
	statFor(prop).Slow++
}

// statKnown counts a case that hit a finding listed in known_findings.json and
// prints the KNOWN-FINDING line once per process and finding.
func statKnown(prop, id, what string) {
	statMu.Lock()
	defer statMu.Unlock()
	p := statFor(prop)
	if p.Known[id] == 0 {
		fmt.Printf("KNOWN-FINDING: property=%s %s\n", prop, what)
	}
	p.Known[id]++
}

func statExcluded(prop string, n int64) {
	statMu.Lock()
	defer statMu.Unlock()
	statFor(prop).Excluded += n
}

func flushStats() {
	dir := os.Getenv("VERIF_STATS_DIR")
	if dir == "" {
		return
	}
	statMu.Lock()
	defer statMu.Unlock()
	pid := os.Getpid()
	for name, p := range statProps {
		base := filepath.Join(dir, fmt.Sprintf("%s.%d", name, pid))
		p.Samples = p.Samples[:0]
		for _, b := range p.buckets {
			for _, r := range b {
				p.Samples = append(p.Samples, r)
			}
		}
		js, err := json.Marshal(p)
		if err == nil {
			_ = os.WriteFile(base+".json", js, 0o644)
		}
		hs := make([]uint64, 0, len(p.hashes))
		for h := range p.hashes {
			hs = append(hs, h)
		}
		sort.Slice(hs, func(i, j int) bool { return hs[i] < hs[j] })
		buf := make([]byte, 8*len(hs))
		for i, h := range hs {
			binary.LittleEndian.PutUint64(buf[8*i:], h)
		}
		_ = os.WriteFile(base+".hashes", buf, 0o644)
	}
}

// ---------------------------------------------------------------- sharding

// shardOf returns (index, count) from VERIF_SHARD="i/n" (default 0/1); used by
// the enumerative runs to split a finite space over processes.
func shardOf() (int, int) {
	s := os.Getenv("VERIF_SHARD")
	if s == "" {
		return 0, 1
	}
	parts := strings.Split(s, "/")
	if len(parts) != 2 {
		return 0, 1
	}
	i, _ := strconv.Atoi(parts[0])
	n, _ := strconv.Atoi(parts[1])
	if n <= 0 {
		return 0, 1
	}
	return i, n
}

func envInt(name string, def int) int {
	if v := os.Getenv(name); v != "" {
		if n, err := strconv.Atoi(v); err == nil {
			return n
		}
	}
	return def
}

func tierThorough() bool { return os.Getenv("VERIF_TIER") == "thorough" }

func TestMain(m *testing.M) {
	code := m.Run()
	flushStats()
	os.Exit(code)
}

func mix64(x uint64) uint64 {
	x += 0x9e3779b97f4a7c15
	x = (x ^ (x >> 30)) * 0xbf58476d1ce4e5b9
	x = (x ^ (x >> 27)) * 0x94d049bb133111eb
	return x ^ (x >> 31)
}
