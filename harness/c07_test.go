//go:build verif

package verifharness

// C07 — Refilter emits precisely the membership changes; nothing if nothing
// changes.  Procedure per Refilter: barrier; snapshot node cache and parent
// cache; Refilter(f2); barrier; collect the events between the barriers.
// Oracle: events == exactly one Delete per cached object f2 rejects plus one
// Create per parent object newly accepted (multiset, order free), nothing for
// retained objects (their identity in the cache is preserved); equal filter
// => no event, identical cache; A->B->A => the view under A.

import (
	"fmt"
	"sort"
	"strings"
	"testing"
	"time"

	"github.com/boz/kcache"
	"github.com/boz/kcache/filter"
	"github.com/boz/kcache/nsname"
	metav1 "k8s.io/apimachinery/pkg/apis/meta/v1"
	"pgregory.net/rapid"
)

func listContent(w *world, c kcache.CacheReader, who string) map[string]metav1.Object {
	objs, err := c.List()
	if err != nil {
		w.fail("%s: List() failed: %v", who, err)
	}
	out := map[string]metav1.Object{}
	for _, o := range objs {
		if o.GetNamespace() != markerNS {
			out[objKey(o)] = o
		}
	}
	return out
}

type c07Result struct {
	removed, added, retained int
	equalFilter              bool
}

// c07Step performs one checked Refilter on a ready node (quiet world).
func c07Step(w *world, n *node, next int) c07Result {
	return c07StepDo(w, n, next, func() { w.refilter(n, next) })
}

// c07StepRaw: the same with one of the unwrapped accept-everything spellings (reference: family
// member 0, accept-all).
func c07StepRaw(w *world, n *node, spelling int) c07Result {
	return c07StepDo(w, n, 0, func() { w.refilterRawNull(n, spelling) })
}

func c07StepDo(w *world, n *node, next int, refilter func()) c07Result {
	before := listContent(w, n.leaf.Cache(), n.path())
	// the parent's content comes from the reference model (the filters on the parent's path applied to
	// the controller's view), not from the parent's own List(): a parent that lists wrongly must not be
	// its child's oracle.  The world is quiet here, so the two agree on the unchanged tree (checked).
	parent := map[string]metav1.Object{}
	for _, o := range w.view {
		if o.GetNamespace() != markerNS && w.effective(n.parent, o) {
			parent[objKey(o)] = o
		}
	}
	if n.parent.leaf != nil {
		listed := listContent(w, n.parent.leaf.Cache(), n.parent.path())
		if fmtContent(listed) != fmtContent(parent) {
			w.fail("before a checked Refilter on %s: its parent's List() returns %s, the reference content of the parent is %s", n.path(), fmtContent(listed), fmtContent(parent))
		}
	}
	prev := n.filt
	i := n.eventCount()
	refilter()
	w.barrier()
	evs := n.eventsFrom(i)
	after := listContent(w, n.leaf.Cache(), n.path())
	accept := w.fam[next].eval

	var want []string
	res := c07Result{}
	for k, o := range before {
		if !accept(o) {
			want = append(want, "delete "+k+"@"+o.GetResourceVersion())
			res.removed++
		} else {
			res.retained++
		}
	}
	for k, o := range parent {
		if _, had := before[k]; !had && accept(o) {
			want = append(want, "create "+k+"@"+o.GetResourceVersion())
			res.added++
		}
	}
	var got []string
	for _, e := range evs {
		got = append(got, string(e.Type)+" "+objKey(e.Obj)+"@"+e.Obj.GetResourceVersion())
	}
	sort.Strings(want)
	sort.Strings(got)
	if !sameStrings(got, want) {
		w.fail("Refilter %s -> %s on %s (cache before %s, parent %s): events %v, expected exactly %v", w.filtName(prev), w.filtName(next), n.path(), fmtContent(before), fmtContent(parent), got, want)
	}
	// cache after: accepted(parent); retained objects keep their identity; created ones are the parent's objects
	for k, o := range parent {
		if accept(o) {
			a, ok := after[k]
			if !ok {
				w.fail("Refilter -> %s on %s: parent object %s is accepted but missing from the cache", w.filtName(next), n.path(), objStr(o))
			}
			if b, had := before[k]; had && a != b {
				w.fail("Refilter -> %s on %s: retained object %s was replaced by another object", w.filtName(next), n.path(), objStr(b))
			}
			if a.GetResourceVersion() != o.GetResourceVersion() {
				w.fail("Refilter -> %s on %s: cache holds %s but the parent holds %s", w.filtName(next), n.path(), objStr(a), objStr(o))
			}
		}
	}
	for k, a := range after {
		if o, ok := parent[k]; !ok || !accept(o) {
			w.fail("Refilter -> %s on %s: cache holds %s which the filter rejects or the parent lacks", w.filtName(next), n.path(), objStr(a))
		}
	}
	if prev >= 0 && !w.markerBlind(n.parent) {
		res.equalFilter = filter.FiltersEqual(w.fam[prev].build(), w.fam[next].build())
		if res.equalFilter && (len(evs) != 0 || res.removed+res.added != 0) {
			w.fail("Refilter to an equal filter (%s -> %s) on %s emitted %v", w.filtName(prev), w.filtName(next), n.path(), got)
		}
	}
	return res
}

// c07Family: the 8-filter family of the exhaustive run — indexes into the
// tree family: accept-all, x=1, x=2 (disjoint), ns a, accept-none, x in
// (1,2) (overlapping), FN (non-comparable), x=1 rebuilt (equal by
// construction to #1).
var c07Family = []int{0, 1, 2, 3, 4, 5, 6, 9}

// TestC07_Enum: every parent content over 4 keys x {absent, x=1, x=2,
// unlabeled} (256) x every ordered triple of the 8-filter family (512), as
// chains f1 -> f2 -> f3 -> f1 on one long-lived filtered subscription.
func TestC07_Enum(t *testing.T) {
	shard, nshards := shardOf()
	stride := envInt("VERIF_ENUM_STRIDE", 1)
	offset := envInt("VERIF_SEED", 1) % stride
	ft := &testFailer{t: t, prop: "C07", test: "TestC07_Enum"}
	w := newWorld(ft, worldCfg{prop: "C07", rootFilter: -1})
	defer w.abort()
	n := w.attach(w.nodes[0], "fsub", c07Family[0])
	w.checkQuiet()
	states := []string{"absent", "1", "2", ""}
	var contents, refilters int64
	for c := 0; c < 256; c++ {
		if c%nshards != shard || (c/nshards)%stride != offset {
			continue
		}
		// install the content
		w.hist = w.hist[:0]
		desc := make([]string, 4)
		for i, k := range treeKeys {
			s := states[(c>>(2*uint(i)))&3]
			desc[i] = k[0] + "/" + k[1] + "=" + s
			switch s {
			case "absent":
				w.del(k[0], k[1])
			case "":
				w.put(k[0], k[1], nil)
			default:
				w.put(k[0], k[1], map[string]string{"x": s})
			}
		}
		ft.ctx = fmt.Sprintf("content %v", desc)
		w.barrier()
		contents++
		for _, f1 := range c07Family {
			for _, f2 := range c07Family {
				for _, f3 := range c07Family {
					w.hist = w.hist[:0]
					ft.ctx = fmt.Sprintf("content %v triple %d,%d,%d", desc, f1, f2, f3)
					if n.filt != f1 {
						c07Step(w, n, f1)
					}
					viewA := fmtContent(listContent(w, n.leaf.Cache(), n.path()))
					r2 := c07Step(w, n, f2)
					r3 := c07Step(w, n, f3)
					r1 := c07Step(w, n, f1)
					refilters += 3
					if back := fmtContent(listContent(w, n.leaf.Cache(), n.path())); back != viewA {
						w.fail("A->B->..->A does not restore the view under A: %s vs %s", back, viewA)
					}
					nt := (r2.removed > 0 && r2.added > 0) || (r3.removed > 0 && r3.added > 0) || (r1.removed > 0 && r1.added > 0) ||
						((r2.equalFilter || r3.equalFilter || r1.equalFilter) && r2.retained+r3.retained+r1.retained > 0)
					id := fmt.Sprintf("%v|%d,%d,%d", desc, f1, f2, f3)
					statCase("C07", hashString(id), nt, func() interface{} {
						return map[string]interface{}{"mode": "enumerated", "parent_content": desc, "filters": []string{w.filtName(f1), w.filtName(f2), w.filtName(f3)}}
					}, "enum_triple")
				}
			}
		}
	}
	w.finish()
	statLabel("C07", "enum_contents", contents)
	statLabel("C07", "enum_checked_refilters", refilters)
	if shard == 0 {
		what := "256 parent contents (4 keys x {absent, x=1, x=2, unlabeled}) x all 512 ordered triples of an 8-filter family (equal-by-construction, overlapping, disjoint, accept-all, accept-none, non-comparable), each as a chain f1->f2->f3->f1 of checked Refilters"
		if stride > 1 {
			what += fmt.Sprintf(" — this run: every %d-th content only (not exhaustive)", stride)
		}
		statExhaustive("C07", what)
	}
}

type testFailer struct {
	t    *testing.T
	prop string
	test string
	ctx  string
}

func (f *testFailer) Fatalf(format string, args ...interface{}) {
	msg := fmt.Sprintf(format, args...)
	writeEnumReplay(f.t, f.prop, f.test, f.ctx, msg)
	f.t.Fatalf("%s [%s]", msg, f.ctx)
}

// TestC07_Random: larger universes, longer chains, immediate and deferred
// nodes, nodes at depth 2 (below a filtered clone), parent traffic between
// the Refilters.
func TestC07_Random(t *testing.T) {
	rapid.Check(t, func(t *rapid.T) {
		w := newWorld(t, worldCfg{prop: "C07", rootFilter: -1})
		defer w.abort()
		keys := [][2]string{{"a", "p"}, {"a", "q"}, {"a", "r"}, {"b", "p"}, {"b", "q"}, {"c", "p"}}
		parent := w.nodes[0]
		depth := 1
		if rapid.Bool().Draw(t, "deep") {
			parent = w.attach(parent, "fclone", rapid.IntRange(0, len(w.fam)-1).Draw(t, "pf"))
			depth = 2
		}
		kind := rapid.SampledFrom([]string{"fsub", "fclone", "dsub", "dclone"}).Draw(t, "kind")
		n := w.attach(parent, kind, rapid.IntRange(0, len(w.fam)-1).Draw(t, "f0"))
		if n.isDeferred() {
			w.refilter(n, rapid.IntRange(0, len(w.fam)-1).Draw(t, "f0d"))
		}
		w.checkQuiet()
		var both, equalNonEmpty bool
		chain, near := 0, 0
		t.Repeat(map[string]func(*rapid.T){
			"put": func(t *rapid.T) {
				k := rapid.SampledFrom(keys).Draw(t, "k")
				if rapid.Bool().Draw(t, "rich") {
					w.put(k[0], k[1], genLabelMap(true).Draw(t, "labels")) // keys x,y; values 1,2,""
				} else {
					w.put(k[0], k[1], drawLabels(t))
				}
			},
			"del": func(t *rapid.T) {
				k := rapid.SampledFrom(keys).Draw(t, "k")
				if !w.del(k[0], k[1]) {
					t.Skip("absent")
				}
			},
			"refilter": func(t *rapid.T) {
				w.barrier()
				r := c07Step(w, n, rapid.IntRange(0, len(w.fam)-1).Draw(t, "f"))
				chain++
				both = both || (r.removed > 0 && r.added > 0)
				equalNonEmpty = equalNonEmpty || (r.equalFilter && r.retained > 0)
			},
			"refilterRawAcceptAll": func(t *rapid.T) {
				// an unwrapped accept-everything spelling (Null(), And(), Not(All()), Labels({}), ...): exactly
				// the parent objects not yet held are created, nothing is deleted
				if rapid.IntRange(0, 2).Draw(t, "rarely") != 0 {
					t.Skip("not now")
				}
				w.barrier()
				prevFilt := n.filt
				r := c07StepRaw(w, n, rapid.IntRange(0, len(rawAcceptAll)-1).Draw(t, "spelling"))
				if r.removed != 0 {
					w.fail("Refilter %s -> an accept-everything filter removed %d objects", w.filtName(prevFilt), r.removed)
				}
				chain++
			},
			"refilterNear": func(t *rapid.T) {
				// a generated filter structurally close to the current one (same constructor, one argument or
				// child changed, permuted, duplicated or dropped): the pairs on which an "is it the same
				// filter?" shortcut can go wrong
				if n.filt < 0 {
					t.Skip("no current term")
				}
				cur := w.fam[n.filt]
				if cur.depth() == 0 && rapid.Bool().Draw(t, "wrap") {
					// grow a composite around the current leaf first
					cur = &term{Kind: rapid.SampledFrom([]termKind{tAnd, tOr}).Draw(t, "wk"), Children: []*term{cloneTerm(cur), cloneTerm(cur)}}
				} else {
					cur = mutateTerm(t, termCfg{}, cur)
				}
				w.fam = append(w.fam, cur)
				w.barrier()
				r := c07Step(w, n, len(w.fam)-1)
				chain++
				near++
				both = both || (r.removed > 0 && r.added > 0)
				equalNonEmpty = equalNonEmpty || (r.equalFilter && r.retained > 0)
			},
			"rawAllAndBack": func(t *rapid.T) {
				// refilter to the library's own accept-nothing filter (for a for-filter node: back to its
				// construction-time filter) and then to a family filter again: both must take effect
				if rapid.IntRange(0, 2).Draw(t, "rarely") != 0 {
					t.Skip("not now")
				}
				w.barrier()
				i := n.eventCount()
				before := listContent(w, n.leaf.Cache(), n.path())
				w.refilterRawAll(n)
				w.checkQuiet() // polls until the cache is empty
				// no marker reaches this node now: wait for its Delete events instead of a barrier
				deadline := time.Now().Add(wedgeBoundNow())
				for len(n.eventsFrom(i)) < len(before) && time.Now().Before(deadline) {
					time.Sleep(100 * time.Microsecond)
				}
				evs := n.eventsFrom(i)
				if len(evs) != len(before) {
					w.fail("Refilter to filter.All() on %s holding %s emitted %d events, expected one Delete per cached object", n.path(), fmtContent(before), len(evs))
				}
				for _, e := range evs {
					if e.Type != kcache.EventTypeDelete {
						w.fail("Refilter to filter.All() on %s emitted %s", n.path(), e)
					}
				}
				next := rapid.IntRange(0, len(w.fam)-1).Draw(t, "f")
				w.refilter(n, next)
				w.checkQuiet()
				chain++
			},
			"refilterParent": func(t *rapid.T) {
				if depth != 2 {
					t.Skip("no filtered parent")
				}
				w.refilter(parent, rapid.IntRange(0, len(w.fam)-1).Draw(t, "pf"))
			},
		})
		w.checkQuiet()
		w.finish()
		hist := append([]string(nil), w.hist...)
		statCase("C07", hashString(strings.Join(hist, ";")), both || equalNonEmpty, func() interface{} {
			return map[string]interface{}{"mode": "random", "history": hist}
		}, "random", fmt.Sprintf("depth%d", depth), "kind_"+kind)
		statLabel("C07", "random_checked_refilters", int64(chain))
		statLabel("C07", "random_refilters_to_generated_nearby_filter", int64(near))
	})
}

// c07Composites: composite filters whose pairwise differences are the ones an
// equality shortcut for composites gets wrong — same length with a
// duplicated child vs. distinct children, permuted children, a child
// replaced, empty composites, double negation.
func c07Composites() []*term {
	fam := treeFilterFamily()
	l1, l2, nsA := fam[1], fam[2], fam[3]
	c := func(k termKind, ch ...*term) *term { return &term{Kind: k, Children: ch} }
	return []*term{
		c(tOr, l1, l1), c(tOr, l1, l2), c(tOr, l2, l1), c(tOr, l2, l2), c(tOr, l1, nsA), c(tOr, nsA, nsA),
		c(tAnd, nsA, nsA), c(tAnd, nsA, l1), c(tAnd, l1, nsA), c(tAnd, nsA, l2), c(tAnd, l1, l1),
		c(tNot, l2), c(tNot, c(tNot, l1)), c(tOr), c(tAnd),
		// NSName id lists mixing full, namespace-only and name-only entries
		{Kind: tNSName, IDs: []nsname.NSName{nsname.New("a", ""), nsname.New("b", "p")}},
		{Kind: tNSName, IDs: []nsname.NSName{nsname.New("b", "p"), nsname.New("a", "")}},
		{Kind: tNSName, IDs: []nsname.NSName{nsname.New("", "q"), nsname.New("a", "p")}},
		{Kind: tNSName, IDs: []nsname.NSName{nsname.New("a", "p"), nsname.New("b", "q")}},
	}
}

// TestC07_EnumComposite: every parent content over 4 keys x {absent, x=1,
// x=2, unlabeled} x every ordered pair of the composite family, as chains
// f1 -> f2 -> f1 on one long-lived filtered subscription.
func TestC07_EnumComposite(t *testing.T) {
	shard, nshards := shardOf()
	stride := envInt("VERIF_ENUM_STRIDE", 1)
	offset := envInt("VERIF_SEED", 1) % stride
	ft := &testFailer{t: t, prop: "C07", test: "TestC07_EnumComposite"}
	w := newWorld(ft, worldCfg{prop: "C07", rootFilter: -1})
	defer w.abort()
	base := len(w.fam)
	w.fam = append(w.fam, c07Composites()...)
	var family []int
	for i := base; i < len(w.fam); i++ {
		family = append(family, i)
	}
	n := w.attach(w.nodes[0], "fsub", family[0])
	w.checkQuiet()
	states := []string{"absent", "1", "2", ""}
	var contents, refilters int64
	for c := 0; c < 256; c++ {
		if c%nshards != shard || (c/nshards)%stride != offset {
			continue
		}
		w.hist = w.hist[:0]
		desc := make([]string, 4)
		for i, k := range treeKeys {
			s := states[(c>>(2*uint(i)))&3]
			desc[i] = k[0] + "/" + k[1] + "=" + s
			switch s {
			case "absent":
				w.del(k[0], k[1])
			case "":
				w.put(k[0], k[1], nil)
			default:
				w.put(k[0], k[1], map[string]string{"x": s})
			}
		}
		ft.ctx = fmt.Sprintf("content %v", desc)
		w.barrier()
		contents++
		for _, f1 := range family {
			for _, f2 := range family {
				w.hist = w.hist[:0]
				ft.ctx = fmt.Sprintf("content %v pair %s -> %s", desc, w.filtName(f1), w.filtName(f2))
				if n.filt != f1 {
					c07Step(w, n, f1)
				}
				viewA := fmtContent(listContent(w, n.leaf.Cache(), n.path()))
				r2 := c07Step(w, n, f2)
				r1 := c07Step(w, n, f1)
				refilters += 2
				if back := fmtContent(listContent(w, n.leaf.Cache(), n.path())); back != viewA {
					w.fail("A->B->A does not restore the view under A: %s vs %s", back, viewA)
				}
				nt := r2.removed+r2.added > 0 || r1.removed+r1.added > 0 || ((r2.equalFilter || r1.equalFilter) && r2.retained+r1.retained > 0)
				id := fmt.Sprintf("comp|%v|%d,%d", desc, f1, f2)
				statCase("C07", hashString(id), nt, func() interface{} {
					return map[string]interface{}{"mode": "enumerated composites", "parent_content": desc, "filters": []string{w.filtName(f1), w.filtName(f2)}}
				}, "enum_composite_pair")
			}
		}
	}
	w.finish()
	statLabel("C07", "enum_composite_contents", contents)
	statLabel("C07", "enum_composite_checked_refilters", refilters)
	if shard == 0 {
		what := fmt.Sprintf("256 parent contents x all %d ordered pairs of a %d-member composite family (duplicated/permuted/replaced children of And/Or, empty composites, double negation), each as a chain f1->f2->f1 of checked Refilters", len(family)*len(family), len(family))
		if stride > 1 {
			what += fmt.Sprintf(" — this run: every %d-th content only (not exhaustive)", stride)
		}
		statExhaustive("C07", what)
	}
}
