//go:build verif

package verifharness

// C03 (continued) — relists after a completed watch reconnect.  kcache's watch
// retry delay is a constant second, so the states "the retry timer has fired
// and the watcher has reconnected" are only reachable in real time: the
// server closes the watch stream (optionally the next connection attempt
// fails once), the harness waits for the reconnect, and only then lets the
// pending relist return - and a second one after further server changes.
// Each must leave the cache equal to the server (the server is quiet when a
// list is released), and Close() must still work.  Few cases, many processes.

import (
	"context"
	"fmt"
	"strings"
	"testing"
	"time"

	"github.com/boz/kcache"
	metav1 "k8s.io/apimachinery/pkg/apis/meta/v1"
	"pgregory.net/rapid"
)

func TestC03_RelistAfterReconnect(t *testing.T) {
	rapid.Check(t, func(t *rapid.T) {
		a := newFakeAPI()
		a.gated = true
		var hist []string
		h := func(format string, args ...interface{}) { hist = append(hist, fmt.Sprintf(format, args...)) }
		keys := [][2]string{{"a", "p"}, {"a", "q"}, {"b", "p"}, {"b", "q"}}
		mutate := func(n int) {
			for i := 0; i < n; i++ {
				k := rapid.SampledFrom(keys).Draw(t, "k")
				if a.has(k[0], k[1]) && rapid.IntRange(0, 3).Draw(t, "del") == 0 {
					a.del(k[0], k[1])
					h("del %s/%s", k[0], k[1])
				} else {
					rv := a.put(k[0], k[1], drawLabels(t))
					h("put %s/%s -> rv %d", k[0], k[1], rv)
				}
			}
		}
		mutate(rapid.IntRange(0, 3).Draw(t, "initial"))
		before, _ := libGoroutines()
		ctx, cancel := context.WithCancel(context.Background())
		defer cancel()
		plog := newPlog(rapid.Bool().Draw(t, "perturb"), rapid.Uint64().Draw(t, "pseed"))
		b := kcache.NewBuilder().Context(ctx).Log(plog).Client(a)
		b.Lister().RefreshPeriod(time.Duration(rapid.IntRange(2, 20).Draw(t, "periodMs")) * time.Millisecond)
		root, err := b.Create()
		if err != nil {
			t.Fatalf("create: %v", err)
		}
		defer func() { cancel(); go root.Close() }()
		fail := func(format string, args ...interface{}) {
			_, dump := libGoroutines()
			if len(dump) > 5000 {
				dump = dump[:5000]
			}
			t.Fatalf("C03 violation: %s\n  history: %s\n%s", fmt.Sprintf(format, args...), strings.Join(hist, "; "), dump)
		}
		serverContent := func() string {
			m := map[string]metav1.Object{}
			for _, o := range a.state() {
				m[objKey(o)] = o
			}
			return fmtContent(m)
		}
		converged := func(what string) {
			want := serverContent()
			deadline := time.Now().Add(wedgeBoundNow())
			for {
				objs, err := root.Cache().List()
				if err != nil {
					fail("%s: List() failed on a running controller: %v", what, err)
				}
				m, _ := contentOf(objs)
				if fmtContent(m) == want {
					return
				}
				if time.Now().After(deadline) {
					setWedgeSeen()
					fail("WEDGE: %s: the server is quiet and holds %s, the cache holds %s (List calls so far %d, Watch calls %d)", what, want, fmtContent(m), a.listCount(), a.watchCount())
				}
				time.Sleep(200 * time.Microsecond)
			}
		}
		release := func(what string) {
			req := a.awaitListWedge()
			if req == nil {
				fail("WEDGE: %s: the controller issued no List call", what)
			}
			snap := req.release(a, false)
			h("%s: list #%d released at rv %d", what, req.k, snap.rv)
		}
		release("first list")
		if !waitWedge(root.Ready()) {
			fail("WEDGE: the controller never became ready")
		}
		converged("after the first list")
		mutate(rapid.IntRange(0, 3).Draw(t, "viaWatch"))
		converged("through the watch")
		// the stream closes; the watcher reconnects after its retry delay (one more second per connect error)
		connErrs := rapid.IntRange(0, 1).Draw(t, "connectErrors")
		a.mu.Lock()
		a.connErrs += connErrs
		a.mu.Unlock()
		wc := a.watchCount()
		n := a.closeSessions()
		h("watch streams closed by the server (%d), %d connect errors", n, connErrs)
		deadline := time.Now().Add(time.Duration(1+connErrs)*time.Second + wedgeBoundNow())
		for a.liveSessions() == 0 {
			if time.Now().After(deadline) {
				fail("WEDGE: the watcher never reconnected after the stream was closed (Watch calls %d -> %d)", wc, a.watchCount())
			}
			time.Sleep(5 * time.Millisecond)
		}
		h("watch reconnected (Watch calls %d -> %d)", wc, a.watchCount())
		mutate(rapid.IntRange(0, 3).Draw(t, "afterReconnect"))
		converged("through the watch after the reconnect")
		// relists after the reconnect: each is applied
		for r := 0; r < rapid.IntRange(2, 3).Draw(t, "relists"); r++ {
			// changes the watch does not deliver: only the relist can bring them
			a.mu.Lock()
			a.dropNext += 8
			a.mu.Unlock()
			mutate(rapid.IntRange(1, 3).Draw(t, "lostChanges"))
			a.mu.Lock()
			a.dropNext = 0
			a.mu.Unlock()
			release(fmt.Sprintf("relist %d after the reconnect", r+1))
			converged(fmt.Sprintf("after relist %d that followed a completed watch reconnect", r+1))
		}
		if isClosedCh(root.Done()) {
			fail("the controller shut down: %v", root.Error())
		}
		if !closeBounded(root) {
			fail("WEDGE: Close() did not return")
		}
		cancel()
		if c, dump := waitLibGoroutinesAtMost(before, wedgeBoundNow()); c > before {
			t.Fatalf("C03 violation: %d library goroutines left after Close:\n%s", c-before, dump)
		}
		statCase("C03", hashString("reconnect;"+strings.Join(hist, ";")), true, func() interface{} {
			return map[string]interface{}{"mode": "relists after a completed watch reconnect (real time)", "history": hist}
		}, "relist_after_reconnect", fmt.Sprintf("reconnect_connect_errors=%d", connErrs))
	})
}
