//go:build verif

package verifharness

// C03 — the controller converges to the API server at every relist, whatever
// went wrong.
//
// Refresh period of a few milliseconds and *gated* lists: the lister asks
// again almost immediately, the harness decides when each list returns and
// whether its snapshot is the one taken at call time or at release time.
// Watch() calls are held by the fake until the harness has inspected the
// cache: the controller resets the watcher right after applying a list, so
// the Watch(resourceVersion = list RV) call marks "list k fully applied", and
// nothing can be applied while it is held.
//
// Oracle at each completion, per key k: cache[k] is in Allowed(k) =
//   k missing from the list          -> absent
//   k listed at version v            -> {the listed object if the filter
//        accepts it, else absent}  U  {objects of k the server emitted with a
//        version > v that the filter accepts}   (only when the watch can
//        deliver; never an older version than the listed one).
// When no change to k is in flight Allowed(k) is a single value (counted as
// an exact comparison).  The unfiltered subscriber's strict mirror must
// converge to the cache while the Watch call is held.  After the history
// stops, one further relist makes the cache equal accepted(server) exactly —
// also when the watch never connects.

import (
	"context"
	"fmt"
	"strconv"
	"strings"
	"sync/atomic"
	"testing"
	"time"

	"github.com/boz/kcache"
	metav1 "k8s.io/apimachinery/pkg/apis/meta/v1"
	"k8s.io/apimachinery/pkg/watch"
	"pgregory.net/rapid"
)

type c03Ctx struct {
	t    *rapid.T
	api  *fakeAPI
	hist []string
}

func (c *c03Ctx) h(format string, args ...interface{}) {
	c.hist = append(c.hist, fmt.Sprintf(format, args...))
	traceOp(format, args...)
}

func (c *c03Ctx) fail(format string, args ...interface{}) {
	c.t.Fatalf("C03 violation: %s\nHISTORY:\n  %s", fmt.Sprintf(format, args...), strings.Join(c.hist, "\n  "))
}

func genSessPlan(t *rapid.T, n int) sessPlan {
	p := noPlan()
	mk := func(name string, p1000 int) map[int]bool {
		m := map[int]bool{}
		for i := 0; i < n; i++ {
			if rapid.IntRange(0, 999).Draw(t, name) < p1000 {
				m[i] = true
			}
		}
		return m
	}
	p.status = mk("status", 80)
	p.bookmark = mk("bookmark", 80)
	p.unknown = mk("unknown", 40)
	p.errobj = mk("errobj", 40)
	p.drop = mk("drop", 150)
	p.dup = mk("dup", 150)
	if rapid.IntRange(0, 3).Draw(t, "closes") == 0 {
		p.closeAfter = rapid.IntRange(0, n).Draw(t, "closeAfter")
	}
	return p
}

func TestC03_Relists(t *testing.T) {
	fam := treeFilterFamily()
	rapid.Check(t, func(t *rapid.T) {
		c := &c03Ctx{t: t, api: newFakeAPI()}
		a := c.api
		a.gated = true
		a.holdWatch = true
		watchMode := rapid.SampledFrom([]string{"dead", "hung", "faithful", "faulty", "faulty"}).Draw(t, "watch")
		a.watchDead = watchMode == "dead"
		a.watchHang = watchMode == "hung" // every Watch() call blocks until its context is cancelled
		fi := rapid.SampledFrom([]int{-1, 1, 2, 3, 5, 7}).Draw(t, "filter")
		accept := func(metav1.Object) bool { return true }
		if fi >= 0 {
			accept = fam[fi].eval
		}
		periodMs := rapid.IntRange(1, 5).Draw(t, "periodMs")
		ctx, cancel := context.WithCancel(context.Background())
		defer cancel()
		plog := newPlog(rapid.Bool().Draw(t, "perturb"), rapid.Uint64().Draw(t, "pseed"))
		b := kcache.NewBuilder().Context(ctx).Log(plog).Client(a)
		if fi >= 0 {
			b.Filter(fam[fi].build())
		}
		b.Lister().RefreshPeriod(time.Duration(periodMs) * time.Millisecond)
		root, err := b.Create()
		if err != nil {
			t.Fatalf("create: %v", err)
		}
		defer func() {
			cancel()
			go root.Close() // never block the test on a wedged Close (judged explicitly below)
		}()
		c.h("controller filter=%v period=%dms watch=%s", fi, periodMs, watchMode)
		sub, err := root.Subscribe()
		if err != nil {
			t.Fatalf("subscribe: %v", err)
		}
		sn := &node{kind: "sub", sub: sub, leaf: sub, note: make(chan struct{}, 1), eof: make(chan struct{})}
		go sn.pump()

		keys := [][2]string{{"a", "p"}, {"a", "q"}, {"b", "p"}, {"b", "q"}, {"a", "r"}}
		mutate := func(n int, why string) int {
			done := 0
			for i := 0; i < n; i++ {
				k := rapid.SampledFrom(keys).Draw(t, "k")
				if a.has(k[0], k[1]) && rapid.IntRange(0, 2).Draw(t, "del") == 0 {
					rv, _ := a.del(k[0], k[1])
					c.h("%s: del %s/%s -> rv %d", why, k[0], k[1], rv)
				} else {
					l := drawLabels(t)
					rv := a.put(k[0], k[1], l)
					c.h("%s: put %s/%s%s -> rv %d", why, k[0], k[1], labelsStr(l), rv)
				}
				done++
			}
			return done
		}
		cacheContent := func() map[string]metav1.Object {
			objs, err := root.Cache().List()
			if err != nil {
				c.fail("Cache().List() failed on a running controller: %v", err)
			}
			m, msg := contentOf(objs)
			if msg != "" {
				c.fail("%s", msg)
			}
			return m
		}
		// waitCompletion: the held Watch call whose RV is the list's RV.
		waitCompletion := func(rv int) {
			bound := wedgeBound + wedgeConfirm
			if atomic.LoadInt32(&wedgeSeen) != 0 {
				bound = wedgeAfter
			}
			deadline := time.After(bound)
			for {
				var idx int
				select {
				case idx = <-a.wcallch:
				case <-deadline:
					atomic.StoreInt32(&wedgeSeen, 1)
					_, dump := libGoroutines()
					c.fail("WEDGE: list at rv %d was released but no Watch(resourceVersion=%d) followed\n%s", rv, rv, dump)
				}
				a.mu.Lock()
				got := a.watchCalls[idx].rv
				a.mu.Unlock()
				if got == strconv.Itoa(rv) {
					return
				}
				// a retry of an older version: let it through (it fails or is superseded)
				a.releasech <- struct{}{}
			}
		}
		subscriberConverges := func(what string) {
			if !sn.mirrorOn {
				return
			}
			deadline := time.Now().Add(wedgeBound)
			for {
				cc := cacheContent()
				var ck []string
				for _, o := range cc {
					ck = append(ck, objKey(o)+"@"+o.GetResourceVersion())
				}
				sortStrings(ck)
				_, mirror, merr, early, _ := sn.snapshotObs()
				if early != "" {
					c.fail("subscriber: %s", early)
				}
				if merr != "" {
					c.fail("%s: the subscriber's event stream is not a well-formed delta: %s", what, merr)
				}
				if sameStrings(mirror, ck) {
					return
				}
				if time.Now().After(deadline) {
					c.fail("%s: a subscriber replaying Events() holds %v but the controller cache holds %v: the events do not account for the difference", what, mirror, ck)
				}
				time.Sleep(50 * time.Microsecond)
			}
		}

		lastListRV := -1
		nrel := rapid.IntRange(1, 7).Draw(t, "relists")
		var exact, setValued, completed, withDiff, inflightEvents int
		faults := map[string]bool{}
		for r := 0; r <= nrel; r++ {
			final := r == nrel
			if !final {
				mutate(rapid.IntRange(0, 4).Draw(t, "pre"), "before list")
			}
			req := a.awaitListWedge()
			if req == nil {
				_, dump := libGoroutines()
				c.fail("WEDGE: relist %d: the controller issued no List call (period %dms)\n%s", r, periodMs, dump)
			}
			atCall := !final && rapid.Bool().Draw(t, "snapshotAtCall")
			if !final {
				n := mutate(rapid.IntRange(0, 3).Draw(t, "during"), "while the list is in flight")
				if watchMode != "dead" && watchMode != "hung" {
					inflightEvents += n
				}
			}
			// Completion of list k is recognised by the Watch(resourceVersion = list version) call that
			// follows it.  That is ambiguous when the list carries the same version as the previous one
			// (server unchanged) and a reconnect of the previous session - same version - is due: the
			// harness then makes the versions differ (a change to some other collection advances the
			// server's version without an event here) and lets the list take its snapshot at release.
			nextRV := a.rvNow()
			if atCall {
				nextRV = req.atCall.rv
			}
			if nextRV == lastListRV {
				a.bumpRV()
				atCall = false
			}
			before := cacheContent()
			snap := req.release(a, atCall)
			lastListRV = snap.rv
			c.h("list #%d released: snapshot at %s, rv %d, %d objects", req.k, map[bool]string{true: "call", false: "release"}[atCall], snap.rv, len(snap.items))
			waitCompletion(snap.rv)
			completed++
			got := cacheContent()
			// per-key oracle
			listed := map[string]kobj{}
			for _, o := range snap.items {
				listed[objKey(o)] = o
			}
			a.mu.Lock()
			logcopy := append([]logEntry(nil), a.log...)
			a.mu.Unlock()
			for _, k := range keys {
				key := k[0] + "/" + k[1]
				allowed := map[string]bool{}
				l, inList := listed[key]
				if !inList {
					allowed[""] = true
				} else {
					if accept(l) {
						allowed[l.GetResourceVersion()] = true
					} else {
						allowed[""] = true
					}
					if watchMode != "dead" && watchMode != "hung" {
						lv := objVersion(l)
						for _, e := range logcopy {
							if objKey(e.obj) == key && e.rv > lv && e.typ != watch.Deleted && accept(e.obj) {
								allowed[strconv.Itoa(e.rv)] = true
							}
						}
					}
				}
				gv := ""
				if o, ok := got[key]; ok {
					gv = o.GetResourceVersion()
					if !accept(o) {
						c.fail("after list #%d the cache holds %s which the controller filter rejects", req.k, objStr(o))
					}
				}
				if !allowed[gv] {
					c.fail("after list #%d (rv %d, snapshot at call=%v) key %s: cache holds version %q, allowed %v (listed: %s)", req.k, snap.rv, atCall, key, gv, keysOf(allowed), objStr(l))
				}
				if len(allowed) == 1 {
					exact++
				} else {
					setValued++
				}
			}
			if fmtContent(before) != fmtContent(got) {
				withDiff++
			}
			if sub.Ready() != nil && isClosedCh(sub.Ready()) && !sn.mirrorOn {
				// the consumer's baseline: the listing at readiness (first completed list)
				sn.mu.Lock()
				sn.mirror = map[string]metav1.Object{}
				for k, o := range got {
					sn.mirror[k] = o
				}
				sn.mirrorOn = true
				sn.mu.Unlock()
				if n := sn.eventCount(); n != 0 {
					c.fail("the subscriber received %d events before the first list completed", n)
				}
			}
			subscriberConverges(fmt.Sprintf("after list #%d", req.k))
			if final {
				// the server stopped changing before this list was released: exact equality
				var want []string
				for _, o := range a.state() {
					if accept(o) {
						want = append(want, objKey(o)+"@"+o.GetResourceVersion())
					}
				}
				sortStrings(want)
				var have []string
				for _, o := range got {
					have = append(have, objKey(o)+"@"+o.GetResourceVersion())
				}
				sortStrings(have)
				if !sameStrings(have, want) {
					c.fail("the server stopped changing, one further relist completed, but the cache %v differs from the server's accepted objects %v", have, want)
				}
			}
			// next watch session: fault plan, then let the held Watch call proceed
			if watchMode == "faulty" {
				a.mu.Lock()
				a.plans = []sessPlan{genSessPlan(t, 12)}
				p := a.plans[0]
				if rapid.IntRange(0, 4).Draw(t, "connErr") == 0 {
					a.connErrs = 1
					faults["connect_error"] = true
				}
				a.mu.Unlock()
				for name, m := range map[string]map[int]bool{"status_frame": p.status, "bookmark_frame": p.bookmark, "unknown_type_frame": p.unknown, "error_frame_with_object_payload": p.errobj, "dropped_event": p.drop, "duplicated_event": p.dup} {
					if len(m) > 0 {
						faults[name] = true
					}
				}
				if p.closeAfter >= 0 {
					faults["stream_closed"] = true
				}
			}
			a.releasech <- struct{}{}
		}
		if isClosedCh(root.Done()) {
			c.fail("the controller shut down during a history of watch faults and relists: %v", root.Error())
		}
		labels := []string{"watch_" + watchMode}
		for f := range faults {
			labels = append(labels, "fault_"+f)
		}
		nt := completed >= 3 && withDiff >= 1 && (len(faults) > 0 || inflightEvents > 0 || watchMode == "dead")
		hist := append([]string(nil), c.hist...)
		statCase("C03", hashString(strings.Join(hist, ";")), nt, func() interface{} {
			return map[string]interface{}{"history": hist}
		}, labels...)
		statExtraAdd("C03", "completed_relists", int64(completed))
		statExtraAdd("C03", "per_key_comparisons_exact", int64(exact))
		statExtraAdd("C03", "per_key_comparisons_set_valued", int64(setValued))
		if !closeBounded(root) {
			_, dump := libGoroutines()
			c.fail("WEDGE: Close() of the controller did not return\n%s", dump)
		}
		cancel()
		if n, dump := waitNoLibGoroutines(wedgeBound); n != 0 {
			c.fail("%d library goroutines left after Close:\n%s", n, dump)
		}
	})
}

func keysOf(m map[string]bool) []string {
	var out []string
	for k := range m {
		if k == "" {
			k = "<absent>"
		}
		out = append(out, k)
	}
	sortStrings(out)
	return out
}
