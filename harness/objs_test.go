//go:build verif

package verifharness

import (
	"fmt"
	"sort"
	"strconv"
	"strings"

	corev1 "k8s.io/api/core/v1"
	metav1 "k8s.io/apimachinery/pkg/apis/meta/v1"
)

// mkPod builds the generic test object: a pod with namespace, name, resource
// version and labels.
func mkPod(ns, name, rv string, labels map[string]string) *corev1.Pod {
	return &corev1.Pod{ObjectMeta: metav1.ObjectMeta{Namespace: ns, Name: name, ResourceVersion: rv, Labels: labels}}
}

func objKey(o metav1.Object) string { return keyStr(o.GetNamespace(), o.GetName()) }

// keyStr: namespace/name, unambiguous also when one of the two contains the separator (then both
// are quoted): ("a/b","c") and ("a","b/c") are different objects.
func keyStr(ns, name string) string {
	if strings.Contains(ns, "/") || strings.Contains(name, "/") {
		return strconv.Quote(ns) + "/" + strconv.Quote(name)
	}
	return ns + "/" + name
}

func objStr(o metav1.Object) string {
	if o == nil {
		return "<nil>"
	}
	s := objKey(o) + "@" + o.GetResourceVersion()
	if l := o.GetLabels(); len(l) > 0 {
		s += labelsStr(l)
	}
	return s
}

func labelsStr(l map[string]string) string {
	if l == nil {
		return "{}"
	}
	ks := make([]string, 0, len(l))
	for k := range l {
		ks = append(ks, k)
	}
	sort.Strings(ks)
	var b strings.Builder
	b.WriteByte('{')
	for i, k := range ks {
		if i > 0 {
			b.WriteByte(',')
		}
		b.WriteString(k + "=" + l[k])
	}
	b.WriteByte('}')
	return b.String()
}

func objVersion(o metav1.Object) int {
	v, err := strconv.Atoi(o.GetResourceVersion())
	if err != nil {
		return -1 << 30
	}
	return v
}

// keyVersions renders a listing as sorted "ns/name@rv" strings, skipping the
// marker namespace.
func keyVersions(objs []metav1.Object) []string {
	out := make([]string, 0, len(objs))
	for _, o := range objs {
		if o == nil {
			out = append(out, "<nil entry>")
			continue
		}
		if o.GetNamespace() == markerNS {
			continue
		}
		out = append(out, objKey(o)+"@"+o.GetResourceVersion())
	}
	sort.Strings(out)
	return out
}

func sameStrings(a, b []string) bool {
	if len(a) != len(b) {
		return false
	}
	for i := range a {
		if a[i] != b[i] {
			return false
		}
	}
	return true
}

func fmtList(objs []metav1.Object) string {
	return fmt.Sprint(keyVersions(objs))
}

const markerNS = "zz"

func sortStrings(s []string) { sort.Strings(s) }
