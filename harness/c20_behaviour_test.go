//go:build verif

package verifharness

// C20(b) — every typed package behaves exactly like the untyped core
// restricted to its type.
//
// The same generated scenario (tree of all attach kinds, monitors, refilters,
// server traffic with objects of the package's type plus a share of
// foreign-typed objects, closes) is executed side by side on two worlds:
// one whose root is <type>.BuildController driven through generated adapters
// (adapters_gen_test.go), one whose root is kcache.NewController.  Each world
// is checked against the reference model after every operation
// (world.checkQuiet: caches, strict mirrors, readiness, closed set), and the
// two are compared node by node: same event sequence (the untyped one
// restricted to the type), same readiness, same lifecycle; typed monitors
// must produce the same callbacks as untyped ones, a foreign-typed event may
// only surface as "no callback" or "callback with nil".

import (
	"fmt"
	"strings"
	"testing"

	"pgregory.net/rapid"
)

func TestC20_Behaviour(t *testing.T) {
	rapid.Check(t, func(t *rapid.T) {
		pkg := rapid.SampledFrom(typedPkgNames).Draw(t, "type")
		if only := onlyCase(); only != "" {
			pkg = only
		}
		typedLists := rapid.Bool().Draw(t, "typedLists")
		wt := newWorld(t, worldCfg{prop: "C20", rootFilter: -1, typed: pkg, objType: pkg, typedLists: typedLists, stepChecked: true})
		defer wt.abort()
		wu := newWorld(t, worldCfg{prop: "C20", rootFilter: -1, objType: pkg, stepChecked: true})
		defer wu.abort()
		worlds := []*world{wt, wu}
		both := func(f func(w *world)) {
			for _, w := range worlds {
				f(w)
			}
		}
		isType := typedPkgs[pkg].isType
		seenT, seenU := map[int]int{}, map[int]int{}
		monSeenT, monSeenU := map[int]int{}, map[int]int{}
		compare := func(what string) {
			both(func(w *world) { w.checkQuiet() })
			if len(wt.nodes) != len(wu.nodes) {
				wt.fail("harness: node counts differ")
			}
			for i := range wt.nodes {
				a, b := wt.nodes[i], wu.nodes[i]
				if a.kind == "mon" {
					ra, na, _, oa, _ := a.cb.snapshot()
					rb, nb, _, ob, _ := b.cb.snapshot()
					if a.cb.nilInit > 0 {
						wt.fail("%s: the listing handed to OnInitialize of typed monitor %s contains %d nil entries", what, a.path(), a.cb.nilInit)
					}
					if oa != "" || ob != "" {
						wt.fail("%s: monitor %s: %s%s", what, a.path(), oa, ob)
					}
					var sa, sb []string
					for _, r := range ra {
						sa = append(sa, r.String())
					}
					for _, r := range rb {
						if r.Kind != "init" && !isType(r.Obj) {
							continue
						}
						if r.Kind == "init" {
							var keep []string
							for _, o := range r.Init {
								if isType(o) {
									keep = append(keep, objKey(o)+"@"+o.GetResourceVersion())
								}
							}
							sortStrings(keep)
							sb = append(sb, "init"+fmt.Sprint(keep))
							continue
						}
						sb = append(sb, r.String())
					}
					// callbacks of this step as multisets (the order inside one refilter batch is free)
					newA, newB := sa[min(monSeenT[i], len(sa)):], sb[min(monSeenU[i], len(sb)):]
					monSeenT[i], monSeenU[i] = len(sa), len(sb)
					sa, sb = append([]string(nil), newA...), append([]string(nil), newB...)
					sortStrings(sa)
					sortStrings(sb)
					if na != nb || !sameStrings(sa, sb) {
						wt.fail("%s: typed monitor %s of package %s and the untyped monitor differ: typed %d inits, callbacks %v; untyped (restricted to the type) %d inits, callbacks %v", what, a.path(), pkg, na, tail(sa, 8), nb, tail(sb, 8))
					}
					continue
				}
				if a.closed != b.closed {
					wt.fail("harness: closed flags differ")
				}
				if a.closed {
					continue
				}
				if ra, rb := isClosedCh(a.readyCh()), isClosedCh(b.readyCh()); ra != rb {
					wt.fail("%s: node %s: typed Ready()=%v, untyped Ready()=%v", what, a.path(), ra, rb)
				}
				// the events of this step (order inside one batch is free: compared as multisets per step)
				ea := renderEvs(a.eventsFrom(seenT[i]))
				var eb []string
				evb := b.eventsFrom(seenU[i])
				for _, e := range evb {
					if isType(e.Obj) {
						eb = append(eb, fmt.Sprintf("%s %s@%s", e.Type, objKey(e.Obj), e.Obj.GetResourceVersion()))
					}
				}
				seenT[i] += len(ea)
				seenU[i] += len(evb)
				sortStrings(ea)
				sortStrings(eb)
				if !sameStrings(ea, eb) {
					wt.fail("%s: node %s: in this step the typed %s subscription delivered %v, the untyped one (restricted to the type) %v", what, a.path(), pkg, ea, eb)
				}
				for _, e := range a.eventsFrom(0) {
					if !isType(e.Obj) {
						wt.fail("%s: node %s: the typed subscription delivered an object of another type: %T", what, a.path(), e.Obj)
					}
				}
			}
		}
		compare("at start")
		foreign, filteredClone, refiltered, monitors, emptyInit := false, false, false, false, false
		keys := [][2]string{{"a", "p"}, {"a", "q"}, {"b", "p"}, {"b", "q"}}
		t.Repeat(map[string]func(*rapid.T){
			"put": func(t *rapid.T) {
				k := rapid.SampledFrom(keys).Draw(t, "k")
				l := drawLabels(t)
				both(func(w *world) { w.put(k[0], k[1], l) })
				compare("after put")
			},
			"del": func(t *rapid.T) {
				k := rapid.SampledFrom(keys).Draw(t, "k")
				if !wt.api.has(k[0], k[1]) {
					t.Skip("absent")
				}
				both(func(w *world) { w.del(k[0], k[1]) })
				compare("after del")
			},
			"foreign": func(t *rapid.T) {
				ns := rapid.SampledFrom([]string{"a", "b"}).Draw(t, "fns")
				name := rapid.SampledFrom([]string{"f1", "f2"}).Draw(t, "fname") // never collides with a typed key
				l := drawLabels(t)
				both(func(w *world) { w.putForeign(ns, name, l) })
				foreign = true
				compare("after a foreign-typed object")
			},
			"attach": func(t *rapid.T) {
				var idx []int
				for i, n := range wt.nodes {
					if !n.closed && n.publisher() != nil && n.depth() < 3 {
						idx = append(idx, i)
					}
				}
				if len(idx) == 0 || len(wt.nodes) >= 10 {
					t.Skip("no room")
				}
				pi := rapid.SampledFrom(idx).Draw(t, "parent")
				kind := rapid.SampledFrom(append([]string{"mon"}, attachKinds...)).Draw(t, "kind")
				fi := rapid.IntRange(0, len(wt.fam)-1).Draw(t, "f")
				both(func(w *world) {
					if kind == "mon" {
						w.attachMonitor(w.nodes[pi])
					} else {
						w.attach(w.nodes[pi], kind, fi)
					}
				})
				if kind == "fclone" || kind == "dclone" {
					filteredClone = true
				}
				if kind == "mon" {
					monitors = true
				}
				compare("after attach")
			},
			"refilter": func(t *rapid.T) {
				var idx []int
				for i, n := range wt.nodes {
					if !n.closed && n.isFiltered() {
						idx = append(idx, i)
					}
				}
				if len(idx) == 0 {
					t.Skip("no filtered node")
				}
				ni := rapid.SampledFrom(idx).Draw(t, "node")
				fi := rapid.IntRange(0, len(wt.fam)-1).Draw(t, "f")
				both(func(w *world) { w.refilter(w.nodes[ni], fi) })
				refiltered = true
				compare("after refilter")
			},
			"monitorOnEmptyView": func(t *rapid.T) {
				// a filtered clone refiltered to the library's own accept-nothing filter has an empty cache
				// (no barrier marker either): a monitor attached now is initialised with an empty listing,
				// typed exactly as untyped
				var idx []int
				for i, n := range wt.nodes {
					if !n.closed && (n.kind == "fclone" || n.kind == "dclone") && n.depth() < 3 {
						idx = append(idx, i)
					}
				}
				if len(idx) == 0 || len(wt.nodes) >= 10 {
					t.Skip("no filtered clone")
				}
				ni := rapid.SampledFrom(idx).Draw(t, "node")
				both(func(w *world) { w.refilterRawAll(w.nodes[ni]) })
				refiltered = true
				compare("after refilter to filter.All()")
				both(func(w *world) { w.attachMonitor(w.nodes[ni]) })
				monitors, emptyInit = true, true
				compare("after attaching a monitor to an empty view")
			},
			"close": func(t *rapid.T) {
				var idx []int
				for i, n := range wt.nodes {
					if !n.closed && n.kind != "root" {
						idx = append(idx, i)
					}
				}
				if len(idx) == 0 {
					t.Skip("nothing to close")
				}
				ni := rapid.SampledFrom(idx).Draw(t, "node")
				both(func(w *world) { w.closeNode(w.nodes[ni]) })
				compare("after close")
			},
		})
		compare("at the end")
		both(func(w *world) { w.finishOpt(false) })
		if c, dump := waitNoLibGoroutines(wedgeBoundNow()); c != 0 {
			if len(dump) > 6000 {
				dump = dump[:6000]
			}
			wt.fail("%d goroutines started by the library are still running after both roots are done:\n%s", c, dump)
		}
		both(func(w *world) { w.cancel() })
		hist := append([]string(nil), wt.hist...)
		statCase("C20", hashString(pkg+strings.Join(hist, ";")), filteredClone && refiltered && foreign, func() interface{} {
			return map[string]interface{}{"mode": "behaviour", "type": pkg, "typed_lists": typedLists, "history": hist}
		}, "behaviour", "behaviour_"+pkg, fmt.Sprintf("monitors=%v", monitors), fmt.Sprintf("foreign_objects=%v", foreign), fmt.Sprintf("monitor_on_empty_view=%v", emptyInit))
	})
}
