//go:build verif

package verifharness

// C14 — list failures are fail-stop and reported; watch failures are never
// fatal; a controller closed deliberately reports no failure.
//
// TestC14_ListFaults (enumerative over failure kind x k, random tree): the
// k-th list (k = 1..5) fails with {error, (nil,nil), non-list object,
// meta.List without Items, list of non-objects}.  Oracle: Done() closes,
// Error() is non-nil / carries the injected cause, Ready() is closed iff
// k > 1, lists 1..k-1 were applied, the whole tree shuts down, nothing leaks.
//
// TestC14_WatchFaults (random): connect-error streaks, abrupt closes, status,
// bookmark, unknown-type and object-less frames at generated positions.
// Oracle: the controller is not done after the fault nor after the following
// reconnect, Error() still reports "running", the tree still converges;
// Close() => Error() == nil; context cancellation => Done.

import (
	"context"
	"errors"
	"fmt"
	"strings"
	"sync"
	"testing"
	"time"

	lifecycle "github.com/boz/go-lifecycle"
	"github.com/boz/kcache"
	"github.com/boz/kcache/filter"
	metav1 "k8s.io/apimachinery/pkg/apis/meta/v1"
	"pgregory.net/rapid"
)

func c14BuildTree(t *rapid.T, w *world, n int) {
	for i := 0; i < n; i++ {
		var cands []*node
		for _, p := range w.livePublishers() {
			if p.depth() < 3 {
				cands = append(cands, p)
			}
		}
		p := rapid.SampledFrom(cands).Draw(t, "parent")
		kind := rapid.SampledFrom(append([]string{"mon"}, attachKinds...)).Draw(t, "kind")
		if kind == "mon" {
			w.attachMonitor(p)
		} else {
			x := w.attach(p, kind, rapid.IntRange(0, len(w.fam)-1).Draw(t, "f"))
			if x.isDeferred() && rapid.Bool().Draw(t, "supply") {
				w.refilter(x, rapid.IntRange(0, len(w.fam)-1).Draw(t, "fd"))
			}
		}
	}
}

// drawListFault: a failure kind and, for a List error, the error value: the
// error kind is drawn about as often as the four malformed-result kinds
// together so that every flavour is exercised.
func drawListFault(t *rapid.T) (listFault, listErrFlavour) {
	fault := rapid.SampledFrom(append([]listFault{lfError, lfError, lfError}, allListFaults...)).Draw(t, "fault")
	flavour := listErrFlavours[0]
	if fault == lfError {
		flavour = rapid.SampledFrom(listErrFlavours).Draw(t, "errorFlavour")
	}
	return fault, flavour
}

func faultLabel(f listFault, fl listErrFlavour) string {
	if f == lfError {
		return "listfault_error(" + fl.name + ")"
	}
	return "listfault_" + string(f)
}

func TestC14_ListFaults(t *testing.T) {
	rapid.Check(t, func(t *rapid.T) {
		fault, flavour := drawListFault(t)
		k := rapid.IntRange(1, 5).Draw(t, "k")
		w := newWorld(t, worldCfg{prop: "C14", rootFilter: -1, gateFirst: true, gatedRelist: true, period: 1500000, perturb: rapid.Bool().Draw(t, "perturb"), seed: rapid.Uint64().Draw(t, "pseed")})
		defer w.abort()
		w.api.listErr = flavour
		ndesc := rapid.IntRange(0, 7).Draw(t, "descendants")
		treeEarly := rapid.Bool().Draw(t, "treeBeforeFirstList")
		if treeEarly {
			c14BuildTree(t, w, ndesc)
		}
		traffic := func() {
			for i := 0; i < rapid.IntRange(0, 4).Draw(t, "ops"); i++ {
				kk := rapid.SampledFrom(treeKeys).Draw(t, "k")
				if rapid.IntRange(0, 3).Draw(t, "del") == 0 {
					w.del(kk[0], kk[1])
				} else {
					w.put(kk[0], kk[1], drawLabels(t))
				}
			}
		}
		traffic()
		for i := 1; i < k; i++ {
			if i == 1 {
				w.releaseFirst(lfNone)
				if !treeEarly {
					c14BuildTree(t, w, ndesc)
				}
			} else {
				w.relist()
			}
			w.checkQuiet() // lists 1..k-1 were applied
			traffic()
		}
		if k > 1 {
			w.checkQuiet()
		}
		// the k-th list fails
		if k == 1 {
			w.releaseFirst(fault)
		} else {
			req := w.api.awaitListWedge()
			if req == nil {
				w.fail("WEDGE: list #%d was never issued", k)
			}
			req.fail(fault)
			w.h("list #%d fails with %s", req.k, faultLabel(fault, flavour))
		}
		w.waitFor(w.root.Done(), fmt.Sprintf("controller Done() after list #%d failed with %s", k, faultLabel(fault, flavour)))
		err := w.root.Error()
		if err == nil || errors.Is(err, lifecycle.ErrRunning) {
			w.fail("list #%d failed with %s but Error() reports %v", k, fault, err)
		}
		if fault == lfError && !errors.Is(err, flavour.err) {
			w.fail("list #%d failed with an injected error (%s) but Error() = %v does not carry the cause", k, flavour.name, err)
		}
		if ready := isClosedCh(w.root.Ready()); ready != (k > 1) {
			w.fail("list #%d failed with %s: Ready() closed = %v, expected %v (only earlier successful lists make the controller ready)", k, fault, ready, k > 1)
		}
		for _, n := range w.nodes {
			w.waitFor(n.doneCh(), fmt.Sprintf("Done() of %s after the fatal list failure", n.path()))
			if n.kind != "mon" {
				w.waitFor(n.eof, fmt.Sprintf("Events() of %s closed after the fatal list failure", n.path()))
				if k == 1 && isClosedCh(n.readyCh()) {
					w.fail("node %s became Ready() although the first list failed", n.path())
				}
			}
		}
		w.finished = true
		if c, dump := waitNoLibGoroutines(wedgeBound); c != 0 {
			w.cancel()
			w.fail("%d library goroutines left after the fatal list failure:\n%s", c, dump)
		}
		w.cancel()
		statCase("C14", hashString(fmt.Sprintf("list %s k=%d %s", faultLabel(fault, flavour), k, strings.Join(w.hist, ";"))), k >= 2 && len(w.nodes) >= 4, func() interface{} {
			return map[string]interface{}{"mode": "list-fault", "fault": faultLabel(fault, flavour), "k": k, "nodes": len(w.nodes), "history": append([]string(nil), w.hist...)}
		}, faultLabel(fault, flavour), fmt.Sprintf("k=%d", k))
	})
}

func TestC14_WatchFaults(t *testing.T) {
	maxFaults := envInt("VERIF_C14_MAXFAULTS", 2)
	rapid.Check(t, func(t *rapid.T) {
		mkPlan := func() sessPlan {
			p := noPlan()
			p.status, p.bookmark, p.unknown, p.errobj = map[int]bool{}, map[int]bool{}, map[int]bool{}, map[int]bool{}
			for i := 0; i < 40; i++ {
				switch rapid.IntRange(0, 9).Draw(t, "frame") {
				case 0:
					p.status[i] = true
				case 1:
					p.bookmark[i] = true
				case 2:
					p.unknown[i] = true
				case 3:
					p.errobj[i] = true
				}
			}
			return p
		}
		w := newWorld(t, worldCfg{prop: "C14", rootFilter: -1, plans: []sessPlan{mkPlan()}, perturb: rapid.Bool().Draw(t, "perturb"), seed: rapid.Uint64().Draw(t, "pseed")})
		defer w.abort()
		c14BuildTree(t, w, rapid.IntRange(0, 5).Draw(t, "descendants"))
		w.checkQuiet()
		kinds := map[string]bool{"frames": true}
		nfault := 0
		running := func(when string) {
			if isClosedCh(w.root.Done()) {
				w.fail("the controller shut down %s: Error() = %v", when, w.root.Error())
			}
			if err := w.root.Error(); !errors.Is(err, lifecycle.ErrRunning) {
				w.fail("%s the controller is running but Error() reports %v", when, err)
			}
		}
		nops := rapid.IntRange(2, 14).Draw(t, "nops")
		for i := 0; i < nops; i++ {
			switch rapid.IntRange(0, 5).Draw(t, "op") {
			case 0:
				if nfault >= maxFaults {
					continue
				}
				nfault++
				kind := rapid.SampledFrom([]string{"close", "nilobject", "connect-errors"}).Draw(t, "fault")
				kinds[kind] = true
				ce := 0
				if kind == "connect-errors" {
					ce = rapid.IntRange(1, 2).Draw(t, "streak")
				}
				w.api.mu.Lock()
				w.api.connErrs = ce
				if ce > 0 {
					fl := rapid.SampledFrom(watchErrFlavours).Draw(t, "connectErrorFlavour")
					w.api.connErr = fl.err
					kinds["connect-error("+fl.name+")"] = true
				}
				w.api.plans = []sessPlan{mkPlan()}
				if kind == "nilobject" {
					for _, s := range w.api.sessions {
						if !s.closed && !s.stopped() {
							s.enqueue(watchEventNil())
						}
					}
				}
				w.api.mu.Unlock()
				if kind != "nilobject" {
					w.api.closeSessions()
				}
				w.h("watch fault: %s (next %d Watch() calls fail)", kind, ce)
				running("right after a watch fault (" + kind + ")")
				// traffic while disconnected
				for j := 0; j < rapid.IntRange(0, 3).Draw(t, "during"); j++ {
					kk := rapid.SampledFrom(treeKeys).Draw(t, "k")
					w.put(kk[0], kk[1], drawLabels(t))
				}
				time.Sleep(time.Duration(1050*(1+ce)) * time.Millisecond)
				running("after the reconnect following a watch fault (" + kind + ")")
				w.checkQuiet() // still converges, through the watch
			default:
				kk := rapid.SampledFrom(treeKeys).Draw(t, "k")
				if rapid.IntRange(0, 3).Draw(t, "del") == 0 {
					w.del(kk[0], kk[1])
				} else {
					w.put(kk[0], kk[1], drawLabels(t))
				}
			}
		}
		w.checkQuiet()
		running("at the end of the history")
		if n := w.api.listCount(); n != 1 {
			w.fail("%d List calls with a refresh period of 1h", n)
		}
		// deliberate shutdown reports no failure
		how := rapid.SampledFrom([]string{"close", "cancel"}).Draw(t, "shutdown")
		if how == "close" {
			if !closeBounded(w.root) {
				w.fail("WEDGE: Close() did not return")
			}
			if err := w.root.Error(); err != nil {
				w.fail("a controller closed deliberately reports the failure %v", err)
			}
			w.markClosed(w.nodes[0])
			w.finish()
		} else {
			w.cancel()
			w.waitFor(w.root.Done(), "controller Done() after context cancellation")
			if err := w.root.Error(); err != nil && !errors.Is(err, context.Canceled) {
				w.fail("after context cancellation Error() = %v (expected nil or context.Canceled)", err)
			}
			w.finished = true
			if c, dump := waitNoLibGoroutines(wedgeBound); c != 0 {
				w.fail("%d library goroutines left after context cancellation:\n%s", c, dump)
			}
		}
		var labels []string
		for k := range kinds {
			labels = append(labels, "watchfault_"+k)
		}
		statCase("C14", hashString("watch "+strings.Join(w.hist, ";")), len(kinds) >= 3, func() interface{} {
			return map[string]interface{}{"mode": "watch-fault", "faults": nfault, "shutdown": how, "history": append([]string(nil), w.hist...)}
		}, append(labels, "shutdown_"+how)...)
	})
}

// TestC14_StalledController: a list fails while the controller is busy (its
// controller-level filter blocks on a harness channel while applying a watch
// event) for several refresh periods.  The failure must still reach the
// controller: once it is released it must stop with the cause, whatever the
// lister did in the meantime.
func TestC14_StalledController(t *testing.T) {
	rapid.Check(t, func(t *rapid.T) {
		P := time.Duration(rapid.IntRange(1500, 6000).Draw(t, "periodUs")) * time.Microsecond
		stallPeriods := rapid.IntRange(2, 8).Draw(t, "stallPeriods")
		fault, flavour := drawListFault(t)
		okBefore := rapid.IntRange(1, 4).Draw(t, "listsBefore")
		a := newFakeAPI()
		a.listErr = flavour
		a.put("a", "p", nil)
		gate := make(chan struct{})
		entered := make(chan struct{}, 1)
		var once sync.Once
		blocker := filter.FN(func(o metav1.Object) bool {
			if o.GetName() == "trigger" {
				once.Do(func() {
					entered <- struct{}{}
					<-gate
				})
			}
			return true
		})
		ctx, cancel := context.WithCancel(context.Background())
		defer cancel()
		b := kcache.NewBuilder().Context(ctx).Log(newPlog(false, 1)).Client(a).Filter(blocker)
		b.Lister().RefreshPeriod(P)
		root, err := b.Create()
		if err != nil {
			t.Fatalf("create: %v", err)
		}
		released := false
		defer func() {
			if !released {
				close(gate)
			}
			cancel()
			go root.Close()
		}()
		fail := func(format string, args ...interface{}) {
			a.mu.Lock()
			var calls []string
			for _, c := range a.listCalls {
				calls = append(calls, fmt.Sprintf("#%d%s", c.k, map[bool]string{true: "(" + string(c.fault) + ")", false: ""}[c.fault != lfNone]))
			}
			a.mu.Unlock()
			t.Fatalf("C14 violation: %s [period %v, controller stalled for %d periods, fault %s; List calls: %v]", fmt.Sprintf(format, args...), P, stallPeriods, fault, calls)
		}
		if !waitWedge(root.Ready()) {
			fail("WEDGE: the controller never became ready")
		}
		// let a few ordinary relists happen
		deadline := time.Now().Add(wedgeBoundNow())
		for a.listCount() < okBefore {
			if time.Now().After(deadline) {
				fail("WEDGE: relisting stopped")
			}
			time.Sleep(P / 4)
		}
		// stall the controller inside the filter
		a.put("a", "trigger", nil)
		select {
		case <-entered:
		case <-time.After(wedgeBoundNow()):
			fail("WEDGE: the watch event never reached the controller")
		}
		// the next list fails; it returns while the controller is busy
		a.mu.Lock()
		k := a.nlists + 1
		if a.inflight > 0 {
			k = a.nlists + 1 // the one in flight returns normally; the following call fails
		}
		a.listFaults[k] = fault
		a.mu.Unlock()
		// (if the previous list's result is still waiting to be consumed the lister rightly does not
		// list again until the controller is released: then the failing list simply comes afterwards)
		whileStalled := false
		deadline = time.Now().Add(10*P + 100*time.Millisecond)
		for time.Now().Before(deadline) {
			a.mu.Lock()
			done := len(a.listCalls) >= k && a.listCalls[k-1].returned
			a.mu.Unlock()
			if done {
				whileStalled = true
				break
			}
			time.Sleep(P / 4)
		}
		// keep the controller busy for several periods, then release it
		time.Sleep(time.Duration(stallPeriods) * P)
		extra := a.listCount() - k
		close(gate)
		released = true
		if !waitWedge(root.Done()) {
			fail("list #%d failed (%s) while the controller was busy; after it was released it kept running (Error() = %v, %d further List calls were made before the failure was consumed): the failure was lost", k, fault, root.Error(), extra)
		}
		if err := root.Error(); err == nil || errors.Is(err, lifecycle.ErrRunning) {
			fail("list #%d failed but Error() reports %v", k, err)
		} else if fault == lfError && !errors.Is(err, flavour.err) {
			fail("Error() = %v does not carry the injected cause", err)
		}
		cancel()
		if n, dump := waitNoLibGoroutines(wedgeBoundNow()); n != 0 {
			fail("%d library goroutines left:\n%s", n, dump)
		}
		statCase("C14", hashString(fmt.Sprintf("stalled %v %d %s %d", P, stallPeriods, faultLabel(fault, flavour), okBefore)), true, func() interface{} {
			return map[string]interface{}{"mode": "list fault while the controller is stalled", "period": P.String(), "stalled_periods": stallPeriods, "fault": faultLabel(fault, flavour), "failing_list": k}
		}, "stalled_controller", faultLabel(fault, flavour), fmt.Sprintf("failed_list_returned_while_stalled=%v", whileStalled))
	})
}
