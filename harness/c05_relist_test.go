//go:build verif

package verifharness

// C05 (continued) — publication order across a relist.  A relist that repairs
// a missed update publishes its diff; an event for the same object that the
// watch delivers right afterwards must reach every subscriber after it.  The
// harness makes the watch lose one update of key K, lets the pending (gated)
// list return with that update in its snapshot and publishes a newer update of
// K at the same moment, so that the relist's diff and the fresh watch event
// are published back to back.  Subscribers (direct and behind two clones)
// replay their events into strict mirrors: an Update that is not strictly
// newer, or a mirror that ends different from the cache, is a violation.
// The logger perturbs the schedule at every log point.

import (
	"context"
	"fmt"
	"strings"
	"testing"
	"time"

	"github.com/boz/kcache"
	metav1 "k8s.io/apimachinery/pkg/apis/meta/v1"
	"pgregory.net/rapid"
)

func TestC05_RelistDiffOrder(t *testing.T) {
	rapid.Check(t, func(t *rapid.T) {
		a := newFakeAPI()
		a.gated = true
		var hist []string
		h := func(format string, args ...interface{}) { hist = append(hist, fmt.Sprintf(format, args...)) }
		keys := [][2]string{{"a", "p"}, {"a", "q"}, {"b", "p"}}
		for _, k := range keys {
			a.put(k[0], k[1], nil)
		}
		// a second, wide key set: rounds that lose dozens of changes at once give the relist a diff of
		// several dozen events (still below one event buffer), with its Deletes at the end
		var wide [][2]string
		for i := 0; i < 64; i++ {
			wide = append(wide, [2]string{"w", fmt.Sprintf("k%02d", i)})
			a.put("w", fmt.Sprintf("k%02d", i), nil)
		}
		bigDiffs := 0
		before, _ := libGoroutines()
		ctx, cancel := context.WithCancel(context.Background())
		defer cancel()
		plog := newPlog(true, rapid.Uint64().Draw(t, "pseed"))
		b := kcache.NewBuilder().Context(ctx).Log(plog).Client(a)
		b.Lister().RefreshPeriod(time.Duration(rapid.IntRange(1, 3).Draw(t, "periodMs")) * time.Millisecond)
		root, err := b.Create()
		if err != nil {
			t.Fatalf("create: %v", err)
		}
		defer func() { cancel(); go root.Close() }()
		fail := func(format string, args ...interface{}) {
			t.Fatalf("C05 violation: %s\n  history: %s", fmt.Sprintf(format, args...), strings.Join(hist, "; "))
		}
		// subscribers: direct, and behind two clones
		var nodes []*node
		mk := func(name string, pub kcache.Publisher) {
			s, err := pub.Subscribe()
			if err != nil {
				fail("Subscribe: %v", err)
			}
			n := &node{name: name, kind: "sub", sub: s, leaf: s, note: make(chan struct{}, 1), eof: make(chan struct{}), tokens: make(chan struct{}, 1)}
			go n.pump()
			nodes = append(nodes, n)
		}
		mk("direct", root)
		c1, err := root.Clone()
		if err != nil {
			fail("Clone: %v", err)
		}
		c2, err := c1.Clone()
		if err != nil {
			fail("Clone: %v", err)
		}
		mk("behind two clones", c2)
		release := func() {
			req := a.awaitListWedge()
			if req == nil {
				fail("WEDGE: the controller issued no List call")
			}
			req.release(a, false)
		}
		release()
		if !waitWedge(root.Ready()) {
			fail("WEDGE: the controller never became ready")
		}
		serverContent := func() string {
			m := map[string]metav1.Object{}
			for _, o := range a.state() {
				m[objKey(o)] = o
			}
			return fmtContent(m)
		}
		settle := func(what string) {
			want := serverContent()
			deadline := time.Now().Add(wedgeBoundNow())
			for {
				objs, err := root.Cache().List()
				if err != nil {
					fail("%s: List() failed: %v", what, err)
				}
				m, _ := contentOf(objs)
				ok := fmtContent(m) == want
				var bad string
				for _, n := range nodes {
					_, mirror, merr, _, stale := n.snapshotObs()
					if merr != "" {
						fail("%s: subscriber %s: its events are not in publication order / not a well-formed delta: %s (events %v)", what, n.name, merr, tail(renderEvs(n.eventsFrom(0)), 6))
					}
					if stale != "" {
						fail("%s: subscriber %s: %s", what, n.name, stale)
					}
					if n.mirrorOn && ok && !sameStrings(mirror, keyVersions(objs)) {
						ok = false
						bad = fmt.Sprintf("subscriber %s replaying its events holds %v, the cache holds %v", n.name, mirror, keyVersions(objs))
					}
				}
				if ok {
					return
				}
				if time.Now().After(deadline) {
					setWedgeSeen()
					fail("WEDGE: %s: the server is quiet and holds %s; cache %s; %s", what, want, fmtContent(m), bad)
				}
				time.Sleep(100 * time.Microsecond)
			}
		}
		settle("after the first list")
		// baselines at a quiet moment
		objs, _ := root.Cache().List()
		for _, n := range nodes {
			n.mu.Lock()
			n.mirror = map[string]metav1.Object{}
			for _, o := range objs {
				n.mirror[objKey(o)] = o
			}
			n.checkGet = false
			n.mirrorOn = true
			n.mu.Unlock()
			if c := n.eventCount(); c != 0 {
				fail("subscriber %s received %d events although nothing happened after the first list", n.name, c)
			}
		}
		rounds := rapid.IntRange(3, 10).Draw(t, "rounds")
		for r := 0; r < rounds; r++ {
			if rapid.IntRange(0, 2).Draw(t, "bigDiff") == 0 {
				// the watch loses n changes (updates and deletes) of distinct wide keys; the relist repairs
				// them in one diff; right behind it the watch delivers newer changes of some of them
				n := rapid.IntRange(25, 60).Draw(t, "lost")
				perm := rapid.Permutation(wide).Draw(t, "lostKeys")[:n]
				a.mu.Lock()
				a.dropNext = n
				a.mu.Unlock()
				lost := 0
				for _, k := range perm {
					if a.has(k[0], k[1]) && rapid.IntRange(0, 2).Draw(t, "lostDelete") == 0 {
						a.del(k[0], k[1])
					} else {
						a.put(k[0], k[1], map[string]string{"x": "1"})
					}
					lost++
				}
				a.mu.Lock()
				a.dropNext = 0
				a.mu.Unlock()
				req := a.awaitListWedge()
				if req == nil {
					fail("WEDGE: round %d: no List call", r)
				}
				req.release(a, false)
				again := rapid.IntRange(1, 6).Draw(t, "again")
				for i := 0; i < again; i++ {
					k := perm[rapid.IntRange(0, n-1).Draw(t, "againKey")]
					a.put(k[0], k[1], map[string]string{"x": "2"})
				}
				h("round %d: %d changes of distinct keys lost by the watch, relist released, %d of those keys changed again at once", r, lost, again)
				bigDiffs++
				settle(fmt.Sprintf("round %d (relist diff of %d events)", r, lost))
				continue
			}
			k := rapid.SampledFrom(keys).Draw(t, "k")
			a.mu.Lock()
			a.dropNext = 1
			a.mu.Unlock()
			v1 := a.put(k[0], k[1], map[string]string{"x": "1"}) // lost by the watch
			a.mu.Lock()
			a.dropNext = 0
			a.mu.Unlock()
			req := a.awaitListWedge()
			if req == nil {
				fail("WEDGE: round %d: no List call", r)
			}
			req.release(a, false)                                // the relist will repair k@v1 ...
			v2 := a.put(k[0], k[1], map[string]string{"x": "2"}) // ... and the watch delivers k@v2 right behind it
			h("round %d: %s/%s@%d lost by the watch, relist released, @%d published at once", r, k[0], k[1], v1, v2)
			if rapid.Bool().Draw(t, "more") {
				k2 := rapid.SampledFrom(keys).Draw(t, "k2")
				a.put(k2[0], k2[1], nil)
			}
			settle(fmt.Sprintf("round %d", r))
		}
		if !closeBounded(root) {
			fail("WEDGE: Close() did not return")
		}
		cancel()
		if c, dump := waitLibGoroutinesAtMost(before, wedgeBoundNow()); c > before {
			t.Fatalf("C05 violation: %d library goroutines left after Close:\n%s", c-before, dump)
		}
		statCase("C05", hashString("relistorder;"+strings.Join(hist, ";")), true, func() interface{} {
			return map[string]interface{}{"mode": "relist diff immediately followed by a watch event for the same object", "history": hist}
		}, "relist_diff_order", fmt.Sprintf("relist_diffs_of_25_to_60_events=%d", min(bigDiffs, 3)))
	})
}
