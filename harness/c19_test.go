//go:build verif

package verifharness

// C19 — workload selection filters follow Kubernetes ownership semantics.
//
// Oracle: the reference ownership predicates in terms_test.go
// (refWorkloadSelects, backends, and the typed-filter cases of term.eval).
//
// Known finding (known_findings.json, id rc-podsfilter-ignores-namespace):
// replicationcontroller.PodsFilter does not scope by namespace.  A
// disagreement is attributed to it only when its structural signature holds:
// kind = replicationcontroller, library accepts, reference rejects, and the
// reference *without* its namespace conjunct accepts.  Everything else is a
// violation.

import (
	"fmt"
	"testing"

	"github.com/boz/kcache/filter"
	corev1 "k8s.io/api/core/v1"
	metav1 "k8s.io/apimachinery/pkg/apis/meta/v1"
	"pgregory.net/rapid"
)

var (
	c19LabelMaps = allLabelMaps(uniKeys, uniValues[:2]) // 9 maps over x,y in {absent,1,2}
	c19Pods      = objectUniverse(uniNamespaces[:2], []string{"p"}, c19LabelMaps, false)
)

const c19KnownID = "rc-podsfilter-ignores-namespace"

// c19Compare checks one (filter term, object); returns a violation message,
// or "" (and known=true when the disagreement is the recorded RC finding).
func c19Compare(tm *term, accept func(metav1.Object) bool, o metav1.Object) (msg string, known bool) {
	got := accept(o)
	want := tm.eval(o)
	if got == want {
		return "", false
	}
	if tm.Kind == tWorkloadPods && tm.WKind == "replicationcontroller" && got && !want {
		noNS := false
		for _, w := range tm.Sources {
			if refWorkloadSelects(tm.WKind, w, o.GetNamespace(), o.GetLabels(), false) {
				noNS = true
			}
		}
		if noNS {
			return "", true
		}
	}
	return fmt.Sprintf("%s: Accept=%v reference=%v on %s", tm, got, want, describeObj(o)), false
}

func c19Nontrivial(tm *term) bool {
	switch tm.Kind {
	case tWorkloadPods:
		// >= 2 sources in different namespaces, or a source that falls back to template labels / has set-based requirements
		ns := map[string]bool{}
		special := false
		for _, w := range tm.Sources {
			ns[w.NS] = true
			if tm.WKind == "service" || tm.WKind == "replicationcontroller" {
				if !w.HasSet || len(w.SetSel) == 0 {
					special = true
				}
			} else if w.Sel.Nil || len(w.Sel.Exprs) > 0 {
				special = true
			}
		}
		return len(ns) > 1 || special
	case tIngressServices:
		for _, w := range tm.Sources {
			if len(w.backends()) > 1 {
				return true
			}
		}
		return len(tm.Sources) > 1
	}
	return true
}

func c19Run(fail func(string), tm *term, objs []metav1.Object, mode string) {
	f := tm.build()
	knownHits := int64(0)
	for _, o := range objs {
		msg, known := c19Compare(tm, f.Accept, o)
		if known {
			knownHits++
			continue
		}
		if msg != "" {
			fail(msg)
			return
		}
	}
	// the same constructor call repeated over the very same source objects: both results must still
	// follow the reference (a constructor may not consume or reorder what it is given)
	f1, f2 := tm.buildTwice()
	for i, g := range []filter.Filter{f1, f2} {
		for _, o := range objs {
			msg, known := c19Compare(tm, g.Accept, o)
			if !known && msg != "" {
				fail(fmt.Sprintf("filter number %d built from one set of argument values: %s", i+1, msg))
				return
			}
		}
	}
	if knownHits > 0 {
		statKnown("C19", c19KnownID, "replicationcontroller.PodsFilter accepts a pod of another namespace (no namespace scoping) [id="+c19KnownID+"]")
		statExcluded("C19", knownHits)
	}
	s := tm.String()
	label := "kind_" + tm.WKind
	switch tm.Kind {
	case tNode:
		label = "kind_nodefilter"
	case tInvolved:
		label = "kind_involvedfilter"
	case tSelectorMatch:
		label = "kind_selectormatch"
	}
	statCase("C19", hashString(s), c19Nontrivial(tm), func() interface{} {
		return map[string]interface{}{"filter": s, "objects": len(objs), "mode": mode, "first_object": describeObj(objs[0])}
	}, label, mode)
}

// ---------------------------------------------------------------- enumeration

func c19WorkloadVariants(kind, name string) []workload {
	nilsel := selSpec{Nil: true}
	set := func(kv ...string) map[string]string {
		m := map[string]string{}
		for i := 0; i+1 < len(kv); i += 2 {
			m[kv[i]] = kv[i+1]
		}
		return m
	}
	var out []workload
	for _, ns := range uniNamespaces[:2] {
		for _, tpl := range []map[string]string{nil, set("x", "1")} {
			switch kind {
			case "service":
				if tpl != nil {
					continue
				}
				out = append(out,
					workload{NS: ns, Name: name, Sel: nilsel},
					workload{NS: ns, Name: name, Sel: nilsel, HasSet: true, SetSel: set()},
					workload{NS: ns, Name: name, Sel: nilsel, HasSet: true, SetSel: set("x", "1")},
					workload{NS: ns, Name: name, Sel: nilsel, HasSet: true, SetSel: set("y", "2")},
					workload{NS: ns, Name: name, Sel: nilsel, HasSet: true, SetSel: set("x", "1", "y", "2")},
				)
			case "replicationcontroller":
				out = append(out,
					workload{NS: ns, Name: name, Sel: nilsel, Template: tpl},
					workload{NS: ns, Name: name, Sel: nilsel, Template: tpl, HasSet: true, SetSel: set()},
					workload{NS: ns, Name: name, Sel: nilsel, Template: tpl, HasSet: true, SetSel: set("x", "1")},
					workload{NS: ns, Name: name, Sel: nilsel, Template: tpl, HasSet: true, SetSel: set("y", "2")},
					workload{NS: ns, Name: name, Sel: nilsel, Template: tpl, HasSet: true, SetSel: set("x", "1", "y", "2")},
				)
				if tpl == nil {
					out = append(out, workload{NS: ns, Name: name, Sel: nilsel, TemplateNil: true})
				}
			default:
				sels := []selSpec{
					nilsel,
					{},
					{MatchLabels: set("x", "1")},
					{MatchLabels: set("x", "1", "y", "2")},
					{Exprs: []selReq{{Key: "x", Op: "In", Values: []string{"1", "2"}}}},
					{Exprs: []selReq{{Key: "x", Op: "NotIn", Values: []string{"1"}}}},
					{Exprs: []selReq{{Key: "y", Op: "Exists"}}},
				}
				for _, s := range sels {
					out = append(out, workload{NS: ns, Name: name, Sel: s, Template: tpl})
				}
			}
		}
	}
	return out
}

func TestC19_Enum(t *testing.T) {
	shard, nshards := shardOf()
	maxSources := 2
	if tierThorough() {
		maxSources = 3
	}
	idx := 0
	fail := func(msg string) {
		writeEnumReplay(t, "C19", "TestC19_Enum", msg, msg)
		t.Fatalf("C19 violation: %s", msg)
	}
	mine := func() bool {
		idx++
		return idx%nshards == shard
	}
	var summary []string
	for _, kind := range workloadKinds {
		v1 := c19WorkloadVariants(kind, "w1")
		v2 := c19WorkloadVariants(kind, "w2")
		v3 := c19WorkloadVariants(kind, "w3")
		n := 0
		run := func(ws ...workload) {
			n++
			if !mine() {
				return
			}
			c19Run(fail, &term{Kind: tWorkloadPods, WKind: kind, Sources: ws}, c19Pods, "enumerated")
		}
		run()
		for _, a := range v1 {
			run(a)
			for _, b := range v2 {
				run(a, b)
				if maxSources >= 3 {
					for _, c := range v3 {
						run(a, b, c)
					}
				}
			}
		}
		summary = append(summary, fmt.Sprintf("%s: all %d source sets of <=%d workloads (%d variants each) x %d pods", kind, n, maxSources, len(v1), len(c19Pods)))
	}
	// ingress -> services
	svcs := []metav1.Object{}
	for _, ns := range uniNamespaces[:2] {
		for _, n := range uniNames {
			svcs = append(svcs, &corev1.Service{ObjectMeta: metav1.ObjectMeta{Namespace: ns, Name: n, ResourceVersion: "1"}})
		}
	}
	ingVariants := func(name string) []workload {
		var out []workload
		empty, p, q := "", "p", "q"
		for _, ns := range uniNamespaces[:2] {
			for _, be := range []*string{nil, &empty, &p, &q} {
				for _, paths := range [][][]string{nil, {nil}, {{}}, {{"p"}}, {{"q", "r"}}, {{"p"}, {"", "r"}}, {{"p", "q", "r"}}} {
					out = append(out, workload{NS: ns, Name: name, Sel: selSpec{Nil: true}, DefaultBackend: be, Paths: paths})
				}
			}
		}
		return out
	}
	i1, i2 := ingVariants("i1"), ingVariants("i2")
	n := 0
	runIng := func(ws ...workload) {
		n++
		if !mine() {
			return
		}
		c19Run(fail, &term{Kind: tIngressServices, WKind: "ingress", Sources: ws}, svcs, "enumerated")
	}
	runIng()
	for _, a := range i1 {
		runIng(a)
		for _, b := range i2 {
			runIng(a, b)
		}
	}
	summary = append(summary, fmt.Sprintf("ingress: all %d sets of <=2 ingresses (%d variants each: default backend absent/empty/named x 0-3 paths) x %d services", n, len(i1), len(svcs)))
	// node / involved / selector-match over their argument universes, all object kinds
	n = 0
	nodeNames := []string{"", "n1", "n2"}
	for mask := 0; mask < 8; mask++ {
		var names []string
		for i, nm := range nodeNames {
			if mask&(1<<uint(i)) != 0 {
				names = append(names, nm)
			}
		}
		n++
		if mine() {
			c19Run(fail, &term{Kind: tNode, Names: names}, c17Universe, "enumerated")
		}
	}
	for _, k := range []string{"Pod", "Service", "Node"} {
		for _, ns := range append(append([]string(nil), uniNamespaces...), "") {
			for _, nm := range append(append([]string(nil), uniNames...), "") {
				n++
				if mine() {
					c19Run(fail, &term{Kind: tInvolved, Inv: [3]string{k, ns, nm}}, c17Universe, "enumerated")
				}
			}
		}
	}
	for _, target := range allLabelMaps(uniKeys, uniValues) {
		n++
		if mine() {
			c19Run(fail, &term{Kind: tSelectorMatch, Set: target}, c17Universe, "enumerated")
		}
	}
	summary = append(summary, fmt.Sprintf("node/involved/selector-match: %d argument tuples x %d objects of pod, service, event and foreign kinds", n, len(c17Universe)))
	if shard == 0 {
		for _, s := range summary {
			statExhaustive("C19", s)
		}
	}
}

// FuzzC19: the random part under Go's coverage-guided fuzzer (thorough tier).
func FuzzC19(f *testing.F) { f.Fuzz(rapid.MakeFuzz(c19RandomProp())) }

func TestC19_Random(t *testing.T) { rapid.Check(t, c19RandomProp()) }

func c19RandomProp() func(*rapid.T) {
	allPods := objectUniverse(uniNamespaces, uniNames[:1], allLabelMaps(uniKeys, uniValues), false)
	var svcs []metav1.Object
	for _, ns := range uniNamespaces {
		for _, n := range append([]string{"s"}, uniNames...) {
			svcs = append(svcs, &corev1.Service{ObjectMeta: metav1.ObjectMeta{Namespace: ns, Name: n, ResourceVersion: "1"}})
		}
	}
	return func(t *rapid.T) {
		tm := &term{}
		switch rapid.IntRange(0, 9).Draw(t, "which") {
		case 0:
			tm.Kind = tIngressServices
			tm.WKind = "ingress"
			tm.Sources = genWorkloads("ingress", 3).Draw(t, "ingresses")
		case 1:
			tm.Kind = tNode
			tm.Names = rapid.SliceOfN(rapid.SampledFrom([]string{"", "n1", "n2", "n3"}), 0, 3).Draw(t, "nodes")
		case 2:
			tm.Kind = tInvolved
			tm.Inv = [3]string{rapid.SampledFrom([]string{"Pod", "Service", "", "Node"}).Draw(t, "ik"), rapid.SampledFrom(append(append([]string(nil), uniNamespaces...), "")).Draw(t, "ins"), rapid.SampledFrom(append(append([]string(nil), uniNames...), "")).Draw(t, "iname")}
		case 3:
			tm.Kind = tSelectorMatch
			tm.Set = genLabelMap(true).Draw(t, "target")
		default:
			tm.Kind = tWorkloadPods
			tm.WKind = rapid.SampledFrom(workloadKinds).Draw(t, "wkind")
			tm.Sources = genWorkloads(tm.WKind, 3).Draw(t, "sources")
		}
		var objs []metav1.Object
		switch tm.Kind {
		case tWorkloadPods:
			objs = allPods
		case tIngressServices:
			objs = svcs
		default:
			objs = c17Universe
		}
		c19Run(func(msg string) { t.Fatalf("C19 violation: %s", msg) }, tm, objs, "random")
	}
}
