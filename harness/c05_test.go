//go:build verif

package verifharness

// C05 — every subscriber sees the published event sequence: in order,
// exactly once.  Trees of plain Subscribe/Clone up to depth 3; the event
// stream is published in bursts of at most EventBufsiz/4 events between
// barriers; subscribers attach at generated moments; consumers read with
// generated delays; the logger perturbs the schedule.
//
// Oracle: the reference stream is the model's prediction from the server
// operations (one event per operation, by C02), cross-checked with the
// witness leaf attached before the first event.  Every leaf's log must be
// exactly ref[i:] for some i <= (events published when its Subscribe/Clone
// call returned).  Right after receiving an event for key k the leaf's
// Cache().Get(k) must not return an older version (checked in the pump).

import (
	"fmt"
	"strings"
	"sync/atomic"
	"testing"

	"github.com/boz/kcache"
	"pgregory.net/rapid"
)

func TestC05_FanOut(t *testing.T) {
	maxInflight := kcache.EventBufsiz / 4
	rapid.Check(t, func(t *rapid.T) {
		w := newWorld(t, worldCfg{prop: "C05", rootFilter: -1, perturb: true, seed: rapid.Uint64().Draw(t, "pseed"), racy: true, checkGet: true})
		defer w.abort()
		keys := [][2]string{{"a", "p"}, {"a", "q"}, {"a", "r"}, {"b", "p"}, {"b", "q"}, {"c", "p"}}
		var ref []string
		attachedAt := map[*node]int{w.nodes[0]: 0}
		inflight := 0
		late := false
		closedNodes := 0
		publish := func(t *rapid.T, n int) {
			for i := 0; i < n; i++ {
				k := rapid.SampledFrom(keys).Draw(t, "k")
				if w.api.has(k[0], k[1]) && rapid.IntRange(0, 3).Draw(t, "del") == 0 {
					rv, _ := w.api.del(k[0], k[1])
					ref = append(ref, fmt.Sprintf("delete %s/%s@%d", k[0], k[1], rv))
				} else {
					typ := "create"
					if w.api.has(k[0], k[1]) {
						typ = "update"
					}
					rv := w.api.put(k[0], k[1], drawLabels(t))
					ref = append(ref, fmt.Sprintf("%s %s/%s@%d", typ, k[0], k[1], rv))
				}
				inflight++
			}
		}
		t.Repeat(map[string]func(*rapid.T){
			"publish": func(t *rapid.T) {
				n := rapid.IntRange(1, maxInflight).Draw(t, "n")
				if inflight+n > maxInflight {
					w.barrier()
					inflight = 0
				}
				publish(t, n)
				w.h("published %d events (total %d, in flight <= %d)", n, len(ref), inflight)
			},
			"barrier": func(t *rapid.T) {
				w.barrier()
				inflight = 0
				w.h("barrier")
			},
			"attach": func(t *rapid.T) {
				var cands []*node
				for _, n := range w.livePublishers() {
					if n.depth() < 3 {
						cands = append(cands, n)
					}
				}
				if len(w.nodes) >= 12 {
					t.Skip("enough nodes")
				}
				p := rapid.SampledFrom(cands).Draw(t, "parent")
				kind := rapid.SampledFrom([]string{"sub", "clone"}).Draw(t, "kind")
				n := w.attach(p, kind, 0)
				attachedAt[n] = len(ref)
				if len(ref) > 0 {
					late = true
				}
			},
			"closeSibling": func(t *rapid.T) {
				// a subscriber (or a whole clone subtree) goes away while events may be in flight:
				// the others must not notice
				var cs []*node
				for _, n := range w.live() {
					if n.kind != "root" {
						cs = append(cs, n)
					}
				}
				if len(cs) == 0 {
					t.Skip("nothing to close")
				}
				n := rapid.SampledFrom(cs).Draw(t, "node")
				if inflight < maxInflight/2 {
					k := rapid.IntRange(0, maxInflight/2).Draw(t, "before")
					publish(t, k)
				}
				w.closeNode(n)
				closedNodes++
				if inflight < maxInflight {
					publish(t, rapid.IntRange(0, maxInflight-inflight).Draw(t, "after"))
				}
			},
			"slow": func(t *rapid.T) {
				n := rapid.SampledFrom(w.nodes).Draw(t, "node")
				d := rapid.IntRange(0, 80).Draw(t, "us")
				atomic.StoreInt64(&n.delayNs, int64(d)*1000)
				w.h("consumer of %s delays %dus per event", n.name, d)
			},
		})
		w.barrier()
		if ov := w.plog.Overruns() + w.plog.WatchDrops(); ov > 0 {
			// the harness keeps at most EventBufsiz/4 events in flight: an overrun is its own doing
			statLabel("C05", "discarded_harness_overrun", 1)
			w.finish()
			return
		}
		// witness cross-check: the leaf attached before the first event holds the whole reference stream
		render := func(evs []evRec) []string {
			out := make([]string, len(evs))
			for i, e := range evs {
				out[i] = fmt.Sprintf("%s %s@%s", e.Type, objKey(e.Obj), e.Obj.GetResourceVersion())
			}
			return out
		}
		depths := map[int]bool{}
		for _, n := range w.nodes {
			evs, _, _, early, stale := n.snapshotObs()
			if early != "" {
				w.fail("leaf %s: %s", n.path(), early)
			}
			if stale != "" {
				w.fail("leaf %s: %s", n.path(), stale)
			}
			got := render(evs)
			at := attachedAt[n]
			if n.closed {
				// closed at some point of the stream: what it received is a contiguous run of the
				// published sequence starting no later than its creation point
				if len(got) > 0 {
					start := -1
					for i := 0; i <= at && i < len(ref); i++ {
						if ref[i] == got[0] {
							start = i
							break
						}
					}
					if start < 0 {
						w.fail("closed leaf %s (attached after %d published events) first received %q, which was not published at or before its creation point", n.path(), at, got[0])
					}
					for i := range got {
						if start+i >= len(ref) || got[i] != ref[start+i] {
							w.fail("closed leaf %s: its log is not a contiguous run of the published sequence at position %d: %q; log around %v", n.path(), i, got[i], window(got, i))
						}
					}
				}
				continue
			}
			if len(got) < len(ref)-at {
				w.fail("leaf %s (attached after %d published events) received %d events but %d were published after its creation; log tail %v, reference tail %v", n.path(), at, len(got), len(ref)-at, tail(got, 6), tail(ref, 6))
			}
			if len(got) > len(ref) {
				w.fail("leaf %s received %d events but only %d were published: duplicates? log tail %v", n.path(), len(got), len(ref), tail(got, 6))
			}
			start := len(ref) - len(got)
			for i := range got {
				if got[i] != ref[start+i] {
					w.fail("leaf %s (attached after %d published events): its log is not a suffix of the published sequence: position %d holds %q, the published sequence has %q there; log around: %v; reference around: %v", n.path(), at, i, got[i], ref[start+i], window(got, i), window(ref, start+i))
				}
			}
			depths[n.depth()] = true
		}
		w.finish()
		nt := len(w.nodes) >= 3 && len(depths) >= 2 && late && len(ref) >= 50
		hist := append([]string(nil), w.hist...)
		statCase("C05", hashString(strings.Join(hist, ";")+fmt.Sprint(len(ref))), nt, func() interface{} {
			return map[string]interface{}{"leaves": len(w.nodes), "events_published": len(ref), "history": hist}
		}, fmt.Sprintf("late_subscriber=%v", late), fmt.Sprintf("events_ge50=%v", len(ref) >= 50), fmt.Sprintf("sibling_closed_mid_stream=%v", closedNodes > 0))
		statExtraAdd("C05", "events_published", int64(len(ref)))
	})
}

func tail(s []string, n int) []string {
	if len(s) > n {
		return s[len(s)-n:]
	}
	return s
}

func window(s []string, i int) []string {
	lo, hi := i-2, i+3
	if lo < 0 {
		lo = 0
	}
	if hi > len(s) {
		hi = len(s)
	}
	return s[lo:hi]
}
