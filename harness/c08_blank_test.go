//go:build verif

package verifharness

// C08 (continued) — "Ready() of a controller closes only after the first list
// has been fully applied ... a cache read made once Ready() is observed
// already returns the synced content", for list responses whose collection
// carries no resourceVersion of its own (what client-go's fake clientsets
// return; the items still carry theirs).  The watch never connects in these
// cases, so lists are the only source and every expectation is exact: at
// Ready() the controller's cache is the first list, every filtered /
// for-filter / cloned subscriber is ready with its filter applied to it, and
// each later relist (again without a collection version) is applied.

import (
	"context"
	"fmt"
	"strings"
	"testing"
	"time"

	"github.com/boz/kcache"
	metav1 "k8s.io/apimachinery/pkg/apis/meta/v1"
	"pgregory.net/rapid"
)

func TestC08_BlankListVersion(t *testing.T) {
	fam := treeFilterFamily()
	rapid.Check(t, func(t *rapid.T) {
		a := newFakeAPI()
		a.blankListRV = rapid.IntRange(0, 3).Draw(t, "blank") > 0 // a quarter of the cases keep the version, as a control
		a.watchDead = true
		a.gated = true
		keys := [][2]string{{"a", "p"}, {"a", "q"}, {"b", "p"}, {"b", "q"}, {"a", "r"}}
		var hist []string
		h := func(format string, args ...interface{}) { hist = append(hist, fmt.Sprintf(format, args...)) }
		mutate := func(n int) {
			for i := 0; i < n; i++ {
				k := rapid.SampledFrom(keys).Draw(t, "k")
				if a.has(k[0], k[1]) && rapid.IntRange(0, 3).Draw(t, "del") == 0 {
					a.del(k[0], k[1])
					h("del %s/%s", k[0], k[1])
				} else {
					l := drawLabels(t)
					rv := a.put(k[0], k[1], l)
					h("put %s/%s%s -> rv %d", k[0], k[1], labelsStr(l), rv)
				}
			}
		}
		mutate(rapid.IntRange(0, 6).Draw(t, "initial"))
		ctx, cancel := context.WithCancel(context.Background())
		defer cancel()
		plog := newPlog(rapid.Bool().Draw(t, "perturb"), rapid.Uint64().Draw(t, "pseed"))
		b := kcache.NewBuilder().Context(ctx).Log(plog).Client(a)
		b.Lister().RefreshPeriod(time.Duration(rapid.IntRange(1, 4).Draw(t, "periodMs")) * time.Millisecond)
		root, err := b.Create()
		if err != nil {
			t.Fatalf("create: %v", err)
		}
		defer func() { cancel(); go root.Close() }()
		fail := func(format string, args ...interface{}) {
			t.Fatalf("C08 violation: %s\n  history: %s", fmt.Sprintf(format, args...), strings.Join(hist, "; "))
		}
		h("lists without a collection resourceVersion: %v", a.blankListRV)
		// subscribers created before the controller is ready
		type subr struct {
			name   string
			cache  kcache.CacheReader
			ready  <-chan struct{}
			events <-chan kcache.Event
			accept func(metav1.Object) bool
		}
		var subs []*subr
		all := func(metav1.Object) bool { return true }
		for i := 0; i < rapid.IntRange(1, 4).Draw(t, "nsubs"); i++ {
			kind := rapid.SampledFrom([]string{"sub", "fsub", "dsub", "clone", "fclone"}).Draw(t, "kind")
			fi := rapid.SampledFrom([]int{0, 1, 2, 3, 5, 7}).Draw(t, "f")
			var s *subr
			switch kind {
			case "sub":
				x, err := root.Subscribe()
				if err != nil {
					fail("Subscribe: %v", err)
				}
				s = &subr{"sub", x.Cache(), x.Ready(), x.Events(), all}
			case "fsub":
				x, err := root.SubscribeWithFilter(fam[fi].build())
				if err != nil {
					fail("SubscribeWithFilter: %v", err)
				}
				s = &subr{"fsub " + fam[fi].String(), x.Cache(), x.Ready(), x.Events(), fam[fi].eval}
			case "dsub":
				x, err := root.SubscribeForFilter()
				if err != nil {
					fail("SubscribeForFilter: %v", err)
				}
				if err := x.Refilter(fam[fi].build()); err != nil {
					fail("Refilter: %v", err)
				}
				s = &subr{"dsub " + fam[fi].String(), x.Cache(), x.Ready(), x.Events(), fam[fi].eval}
			case "clone":
				x, err := root.Clone()
				if err != nil {
					fail("Clone: %v", err)
				}
				s = &subr{"clone", x.Cache(), x.Ready(), nil, all}
			case "fclone":
				x, err := root.CloneWithFilter(fam[fi].build())
				if err != nil {
					fail("CloneWithFilter: %v", err)
				}
				s = &subr{"fclone " + fam[fi].String(), x.Cache(), x.Ready(), nil, fam[fi].eval}
			}
			subs = append(subs, s)
			h("attach %s", s.name)
		}
		render := func(objs []metav1.Object, accept func(metav1.Object) bool) string {
			var out []string
			for _, o := range objs {
				if accept(o) {
					out = append(out, objKey(o)+"@"+o.GetResourceVersion())
				}
			}
			sortStrings(out)
			return fmt.Sprint(out)
		}
		listOf := func(c kcache.CacheReader, who string) string {
			objs, err := c.List()
			if err != nil {
				fail("%s: List() failed: %v", who, err)
			}
			return render(objs, all)
		}
		// first list
		req := a.awaitListWedge()
		if req == nil {
			fail("WEDGE: no first List call")
		}
		if isClosedCh(root.Ready()) {
			fail("the controller is Ready() before its first list returned")
		}
		mutate(rapid.IntRange(0, 3).Draw(t, "duringFirst"))
		snap := req.release(a, false)
		var listed []metav1.Object
		for _, o := range snap.items {
			listed = append(listed, o)
		}
		h("first list released: %d objects", len(listed))
		if !waitWedge(root.Ready()) {
			fail("WEDGE: the controller never became ready after its first list returned")
		}
		if got, want := listOf(root.Cache(), "controller"), render(listed, all); got != want {
			fail("the controller's Ready() is closed; a cache read made right then returned %s, the first list held %s", got, want)
		}
		for _, s := range subs {
			if !waitWedge(s.ready) {
				fail("WEDGE: %s never became ready after the controller did", s.name)
			}
			if got, want := listOf(s.cache, s.name), render(listed, s.accept); got != want {
				fail("%s: Ready() is closed; a cache read made right then returned %s, the synced content is %s", s.name, got, want)
			}
			if s.events != nil {
				select {
				case ev := <-s.events:
					fail("%s: an event (%v) was delivered although nothing happened after the first list", s.name, ev)
				default:
				}
			}
		}
		// later relists, each the only source of change
		rounds := rapid.IntRange(1, 4).Draw(t, "relists")
		for r := 0; r < rounds; r++ {
			mutate(rapid.IntRange(1, 4).Draw(t, "changes"))
			req := a.awaitListWedge()
			if req == nil {
				fail("WEDGE: relisting stopped")
			}
			snap := req.release(a, false)
			var now []metav1.Object
			for _, o := range snap.items {
				now = append(now, o)
			}
			h("relist released: %d objects", len(now))
			check := func(c kcache.CacheReader, who string, accept func(metav1.Object) bool) {
				want := render(now, accept)
				deadline := time.Now().Add(wedgeBoundNow())
				for {
					got := listOf(c, who)
					if got == want {
						return
					}
					if time.Now().After(deadline) {
						setWedgeSeen()
						fail("%s: a relist returned %s (accepted by its filter) but the cache holds %s: the relist was not applied", who, want, got)
					}
					time.Sleep(100 * time.Microsecond)
				}
			}
			check(root.Cache(), "controller", all)
			for _, s := range subs {
				check(s.cache, s.name, s.accept)
			}
		}
		if isClosedCh(root.Done()) {
			fail("the controller shut down: %v", root.Error())
		}
		if !closeBounded(root) {
			fail("WEDGE: Close() did not return")
		}
		cancel()
		if n, dump := waitNoLibGoroutines(wedgeBound); n != 0 {
			t.Fatalf("C08 violation: %d library goroutines left after Close:\n%s", n, dump)
		}
		statCase("C08", hashString("blank;"+strings.Join(hist, ";")), a.blankListRV && len(listed) > 0 && len(subs) > 1, func() interface{} {
			return map[string]interface{}{"mode": "lists without a collection resourceVersion, watch never connects", "history": hist}
		}, "blank_list_version", fmt.Sprintf("collection_version_blank=%v", a.blankListRV))
	})
}
