//go:build verif

package verifharness

// C08 — Ready means synced, and nothing is observable before it.
//
// Exhaustive part: every order of length 6 over {parent becomes ready (P),
// Refilter(equal) (Re), Refilter(new) (Rn), parent event (Ev), parent cache
// change (Ch), subscribe (Sc)} for immediate and deferred variants, for the
// subscription and the clone flavour, at node depth 1..3.  "Parent becomes
// ready" is driven by releasing the gated first list.  After every step
// (quiet mode): Ready() of every node is closed iff the readiness model says
// so, no event was delivered before Ready, the listing taken at the instant
// Ready was observed equals the filtered parent content, caches and strict
// mirrors agree with the reference (world.checkQuiet).
//
// Random part: the same alphabet fired without barriers under schedule
// perturbation, including a failing first list (nothing ever becomes ready,
// everything becomes done).

import (
	"fmt"
	"strings"
	"testing"

	"pgregory.net/rapid"
)

var c08Alphabet = []string{"P", "Re", "Rn", "Ev", "Ch", "Sc"}

type c08Variant struct {
	deferred bool
	clone    bool
	depth    int
}

func (v c08Variant) String() string {
	k := "sub"
	if v.clone {
		k = "clone"
	}
	d := "immediate"
	if v.deferred {
		d = "deferred"
	}
	return fmt.Sprintf("%s-%s-depth%d", d, k, v.depth)
}

func c08Variants() []c08Variant {
	var out []c08Variant
	for _, d := range []bool{false, true} {
		for _, c := range []bool{false, true} {
			for depth := 1; depth <= 3; depth++ {
				out = append(out, c08Variant{d, c, depth})
			}
		}
	}
	return out
}

// c08Build creates the world (first list gated) and the node under test.
func c08Build(t failer, v c08Variant, perturb bool, seed uint64) (*world, *node) {
	w := newWorld(t, worldCfg{prop: "C08", rootFilter: -1, gateFirst: true, checkReady: !perturb, stepChecked: !perturb, perturb: perturb, seed: seed, racy: perturb})
	// something to list
	w.api.put("a", "p", map[string]string{"x": "1"})
	w.api.put("b", "q", map[string]string{"x": "2"})
	p := w.nodes[0]
	for d := 1; d < v.depth; d++ {
		if d%2 == 1 {
			p = w.attach(p, "clone", 0)
		} else {
			p = w.attach(p, "fclone", 0)
		}
	}
	kind := map[[2]bool]string{{false, false}: "fsub", {false, true}: "fclone", {true, false}: "dsub", {true, true}: "dclone"}[[2]bool{v.deferred, v.clone}]
	n := w.attach(p, kind, 1)
	return w, n
}

// c08Step applies one letter.  nextNew cycles through filters different from the current one.
func c08Step(w *world, n *node, letter string, counter *int) {
	*counter++
	switch letter {
	case "P":
		if w.firstReq != nil {
			w.releaseFirst(lfNone)
		} else {
			w.h("P (already ready)")
		}
	case "Re":
		switch {
		case n.filt == -2 || n.filt == -3:
			w.refilterRawAll(n) // equal to the for-filter node's initial filter
		default:
			w.refilter(n, n.filt) // rebuilt, equal by construction
		}
	case "Rn":
		next := *counter % 4 // the library's own accept-everything filter (unwrapped), x=1, x=2, ns a
		if next == n.filt {
			next = (next + 1) % 4
		}
		if next == 0 {
			w.refilterRawNull(n, w.markRV+*counter)
		} else {
			w.refilter(n, next)
		}
	case "Ev":
		// a parent event for an object the filters x=1 / ns a accept
		w.put("a", fmt.Sprintf("e%d", *counter%2), map[string]string{"x": "1"})
	case "Ch":
		// a parent cache change that moves an object across filter boundaries, or removes it
		if *counter%2 == 0 && w.api.has("a", "p") {
			w.del("a", "p")
		} else {
			w.put("a", "p", map[string]string{"x": fmt.Sprint(1 + *counter%2)})
		}
	case "Sc":
		if n.publisher() != nil {
			w.attach(n, "sub", 0)
		} else {
			w.attach(n.parent, "sub", 0)
		}
	}
}

func c08Nontrivial(order []string) bool {
	p := -1
	for i, l := range order {
		if l == "P" {
			p = i
			break
		}
	}
	if p < 0 {
		return false
	}
	before, after, evBetween := false, false, false
	for i, l := range order {
		if l == "Re" || l == "Rn" {
			if i < p {
				before = true
			} else {
				after = true
			}
		}
		if (l == "Ev" || l == "Ch") && i > p {
			evBetween = true
		}
	}
	return (before && after) || evBetween
}

func c08RunOrder(ft failer, v c08Variant, order []string) {
	w, n := c08Build(ft, v, false, 1)
	defer w.abort()
	w.checkQuiet()
	counter := 0
	for _, l := range order {
		c08Step(w, n, l, &counter)
		w.checkQuiet()
	}
	if w.firstReq != nil {
		w.releaseFirst(lfNone)
		w.checkQuiet()
	}
	w.finish()
}

func TestC08_Enum(t *testing.T) {
	shard, nshards := shardOf()
	stride := envInt("VERIF_ENUM_STRIDE", 1)
	offset := envInt("VERIF_SEED", 1) % stride
	variants := c08Variants()
	ft := &testFailer{t: t, prop: "C08", test: "TestC08_Enum"}
	total := 1
	for i := 0; i < 6; i++ {
		total *= len(c08Alphabet)
	}
	only := onlyCase()
	idx := 0
	for vi, v := range variants {
		for code := 0; code < total; code++ {
			idx++
			order := make([]string, 6)
			c := code
			for i := range order {
				order[i] = c08Alphabet[c%len(c08Alphabet)]
				c /= len(c08Alphabet)
			}
			id := fmt.Sprintf("%s %s", v, strings.Join(order, ","))
			if only != "" {
				if only != id {
					continue
				}
			} else if idx%nshards != shard || (idx/nshards)%stride != offset {
				continue
			}
			ft.ctx = id
			c08RunOrder(ft, v, order)
			statCase("C08", hashString(id), c08Nontrivial(order), func() interface{} {
				return map[string]interface{}{"mode": "enumerated", "variant": v.String(), "order": order}
			}, "enum", fmt.Sprintf("variant_%d", vi))
		}
	}
	if shard == 0 {
		what := fmt.Sprintf("all %d orders of length 6 over {P,Re,Rn,Ev,Ch,Sc} (oracle after every step, so all shorter orders are covered as prefixes) x %d variants (immediate/deferred x subscription/clone x node depth 1..3)", total, len(variants))
		if stride > 1 {
			what += fmt.Sprintf(" — this run: every %d-th order only (not exhaustive)", stride)
		}
		statExhaustive("C08", what)
	}
}

// TestC08_Racy: random orders fired back-to-back under schedule perturbation,
// optionally with a failing first list.
func TestC08_Racy(t *testing.T) {
	variants := c08Variants()
	rapid.Check(t, func(t *rapid.T) {
		v := rapid.SampledFrom(variants).Draw(t, "variant")
		failFirst := rapid.IntRange(0, 4).Draw(t, "failFirst") == 0
		var fault listFault
		flavour := listErrFlavours[0]
		if failFirst {
			fault, flavour = drawListFault(t)
		}
		order := rapid.SliceOfN(rapid.SampledFrom(c08Alphabet), 1, 10).Draw(t, "order")
		w, n := c08Build(t, v, true, rapid.Uint64().Draw(t, "pseed"))
		defer w.abort()
		w.api.listErr = flavour
		counter := 0
		for _, l := range order {
			if l == "P" && failFirst {
				if w.firstReq != nil {
					w.releaseFirst(fault)
				}
				continue
			}
			if w.rootDead {
				break
			}
			c08Step(w, n, l, &counter)
		}
		if w.firstReq != nil {
			w.releaseFirst(fault)
		}
		if w.rootDead {
			// a failed first list never makes anything ready; everything becomes done
			w.waitFor(w.root.Done(), "root Done() after the first list failed with "+string(fault))
			for _, x := range w.nodes {
				w.waitFor(x.doneCh(), fmt.Sprintf("Done() of %s after the first list failed", x.path()))
				if x.kind != "mon" {
					w.waitFor(x.eof, fmt.Sprintf("Events() of %s closed after the first list failed", x.path()))
					if isClosedCh(x.readyCh()) {
						w.fail("node %s became Ready() although the first list failed (%s)", x.path(), fault)
					}
					if c := x.eventCount(); c > 0 {
						w.fail("node %s delivered %d events although the first list failed", x.path(), c)
					}
				}
			}
			if isClosedCh(w.root.Ready()) {
				w.fail("the controller became Ready() although its first list failed (%s)", fault)
			}
			w.finished = true
			w.cancel()
			if c, dump := waitNoLibGoroutines(wedgeBound); c != 0 {
				w.fail("%d library goroutines left after a failed first list:\n%s", c, dump)
			}
		} else {
			w.checkQuiet()
			w.finish()
		}
		id := fmt.Sprintf("racy %s fail=%s %s", v, fault, strings.Join(order, ","))
		statCase("C08", hashString(id), c08Nontrivial(order) || failFirst, func() interface{} {
			return map[string]interface{}{"mode": "racy", "variant": v.String(), "order": order, "first_list_fault": string(fault)}
		}, "racy", fmt.Sprintf("first_list_fails=%v", failFirst))
	})
}
