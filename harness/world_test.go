//go:build verif

package verifharness

// world: one fake API server, one root controller and a tree of nodes
// (Subscribe / SubscribeWithFilter / SubscribeForFilter / Clone /
// CloneWithFilter / CloneForFilter / monitors) with, per node, the reference
// model (kind, parent, current reference predicate or "none supplied",
// closed) and a pump goroutine draining its Events() into a log and a mirror.
//
// Barrier: "once in-flight events have drained" is never a sleep.  A marker
// object (namespace zz) is updated on the fake server and the barrier waits
// until the pump of every live, should-be-ready node has seen that version.
// Every path is FIFO, so everything published before the marker has been
// received.  Two refinements (both were harness false alarms in the
// prototype): (1) wait for Ready() of every node the readiness model says
// must be ready *before* sending the marker (a node that is not ready absorbs
// the marker into its initial sync); (2) a barrier is two markers in sequence
// (a Refilter batch may contain the first marker in map order ahead of the
// batch's own events; the second travels strictly behind everything).

import (
	"context"
	"fmt"
	"sort"
	"strings"
	"sync"
	"sync/atomic"
	"time"

	"github.com/boz/kcache"
	"github.com/boz/kcache/filter"
	"github.com/boz/kcache/nsname"
	corev1 "k8s.io/api/core/v1"
	metav1 "k8s.io/apimachinery/pkg/apis/meta/v1"
	"k8s.io/apimachinery/pkg/labels"
)

var wedgeSeen int32 // set after the first confirmed wedge in this process

const (
	wedgeBound   = 10 * time.Second
	wedgeConfirm = 25 * time.Second
	wedgeAfter   = 2 * time.Second
)

// treeFilterFamily: reference predicates (term.eval) and real filters
// (wrapped so that markers pass) for the tree harness.
func treeFilterFamily() []*term {
	set := func(kv ...string) map[string]string {
		m := map[string]string{}
		for i := 0; i+1 < len(kv); i += 2 {
			m[kv[i]] = kv[i+1]
		}
		return m
	}
	l1 := &term{Kind: tLabels, Set: set("x", "1")}
	l2 := &term{Kind: tLabels, Set: set("x", "2")}
	nsA := &term{Kind: tNSName, IDs: []nsname.NSName{nsname.New("a", "")}}
	return []*term{
		{Kind: tNull}, // accept-all
		l1,
		l2, // disjoint from l1
		nsA,
		{Kind: tAll}, // accept-none
		{Kind: tLabelSelector, Sel: selSpec{Exprs: []selReq{{Key: "x", Op: "In", Values: []string{"1", "2"}}}}}, // overlaps l1 and l2
		{Kind: tFN, FN: 0},                       // non-comparable, same meaning as nsA
		{Kind: tNot, Children: []*term{l1}},      // complement
		{Kind: tAnd, Children: []*term{nsA, l1}}, // nested
		{Kind: tLabels, Set: set("x", "1")},      // equal to #1 by construction, distinct value
	}
}

func markerPass() filter.Filter { return filter.NSName(nsname.New(markerNS, "")) }

// wrapFilter lets the marker namespace pass every generated filter.
func wrapFilter(tm *term) filter.Filter {
	switch tm.Kind {
	case tNSName:
		// stays a bare NSName filter (code paths keyed on the filter's own type are reached): the marker
		// namespace becomes one more namespace-only id
		c := cloneTerm(tm)
		c.IDs = append(c.IDs, nsname.New(markerNS, ""))
		return c.build()
	case tOr:
		// stays one flat Or: the marker filter is one more child
		fs := make([]filter.Filter, 0, len(tm.Children)+1)
		for _, ch := range tm.Children {
			fs = append(fs, ch.build())
		}
		return filter.Or(append(fs, markerPass())...)
	}
	return filter.Or(tm.build(), markerPass())
}

type node struct {
	id       int
	name     string
	kind     string // root, sub, fsub, dsub, clone, fclone, dclone, mon
	parent   *node
	children []*node

	sub  kcache.Subscription
	fsub kcache.FilterSubscription
	ctl  kcache.Controller
	fctl kcache.FilterController
	mon  kcache.Monitor
	leaf kcache.Subscription

	rebased  bool // the node was marker-blind at some point: its mirror baseline is taken again afterwards
	lossy    bool // the consumer was stalled beyond its buffer: its own stream has gaps by design, no mirror oracle
	filt     int  // reference predicate: index into the family; -1 none; -2 deferred and not supplied; -3 the raw filter.All() (rejects markers too)
	closed   bool
	baseline bool

	mu        sync.Mutex
	stall     chan struct{} // non-nil: the pump does not read until it is closed
	tokens    chan struct{} // while stalled: one token lets the pump read exactly one more event
	delayNs   int64
	events    []evRec
	markSeen  int
	maxRV     int             // highest resource version carried by any event received so far
	nmarks    int             // marker events received
	zzSeen    map[string]bool // names of marker-namespace objects whose Create/Update was received
	note      chan struct{}
	mirror    map[string]metav1.Object
	mirrorOn  bool
	mirrorErr string
	early     string
	stale     string
	eof       chan struct{}
	checkGet  bool

	// monitor callback log
	cb *cbLog

	// C08: listing taken at the instant Ready() was observed
	atReady        []string
	atReadyErr     error
	atReadySet     bool
	atReadyChecked bool
}

func (n *node) isFiltered() bool {
	switch n.kind {
	case "fsub", "dsub", "fclone", "dclone":
		return true
	}
	return false
}

func (n *node) isDeferred() bool { return n.kind == "dsub" || n.kind == "dclone" }

func (n *node) publisher() kcache.Publisher {
	switch n.kind {
	case "root", "clone":
		return n.ctl
	case "fclone", "dclone":
		return n.fctl
	}
	return nil
}

func (n *node) doneCh() <-chan struct{} {
	switch {
	case n.sub != nil:
		return n.sub.Done()
	case n.fsub != nil:
		return n.fsub.Done()
	case n.ctl != nil:
		return n.ctl.Done()
	case n.fctl != nil:
		return n.fctl.Done()
	case n.mon != nil:
		return n.mon.Done()
	}
	return nil
}

func (n *node) readyCh() <-chan struct{} {
	if n.leaf != nil {
		return n.leaf.Ready()
	}
	return nil
}

func (n *node) closeReal() {
	switch {
	case n.sub != nil:
		n.sub.Close()
	case n.fsub != nil:
		n.fsub.Close()
	case n.ctl != nil:
		n.ctl.Close()
	case n.fctl != nil:
		n.fctl.Close()
	case n.mon != nil:
		closeMonitorBounded(n.mon, n.cb)
	}
}

// closeMonitorBounded calls Monitor.Close() without ever blocking the harness
// on it for good: kcache's Close() only asks the subscription to end, but a
// Close() that waits for the monitor's goroutine would wait for as long as the
// handler is blocked by the harness.  Returns false if Close() has not
// returned within the wedge bound although no callback is being held.
func closeMonitorBounded(m kcache.Monitor, cb *cbLog) bool {
	done := make(chan struct{})
	go func() { m.Close(); close(done) }()
	select {
	case <-done:
		return true
	case <-time.After(wedgeBoundNow()):
	}
	if cb != nil && cb.blocked() {
		return true // it may legitimately be waiting for the callback the harness holds
	}
	select {
	case <-done:
		return true
	case <-time.After(wedgeBoundNow()):
		setWedgeSeen()
		return false
	}
}

func (n *node) depth() int {
	d := 0
	for x := n.parent; x != nil; x = x.parent {
		d++
	}
	return d
}

func (n *node) path() string {
	if n.parent == nil {
		return n.name
	}
	return n.parent.path() + ">" + n.name + "(" + n.kind + ")"
}

type worldCfg struct {
	prop        string
	rootFilter  int  // family index or -1
	perturb     bool // schedule perturbation through the logger
	seed        uint64
	racy        bool          // no per-op barrier
	gatedRelist bool          // lists after the first are gated; refresh period short
	period      time.Duration // refresh period (default 1h)
	checkGet    bool          // C05: read the cache right after each event
	gateFirst   bool          // the first list is gated too: the root is not ready until releaseFirst
	checkReady  bool          // C08: list every node's cache at the instant its Ready() is observed
	stepChecked bool          // the test calls checkQuiet after every single operation, starting right after creation
	plans       []sessPlan    // fault plans of the first watch sessions
	typed       string        // C20: build the root through this typed package (adapters_gen_test.go)
	objType     string        // C20: server objects are of this typed package's type (also for untyped roots)
	passThrough bool          // consumers read through a forwarding goroutine, like the typed adapters (C20's untyped world)
	typedLists  bool          // C20: lists are the typed list type instead of a metav1.List of raw objects
}

type world struct {
	t    failer
	cfg  worldCfg
	api  *fakeAPI
	plog *plog
	fam  []*term

	unacked int // events emitted since the last point at which every inbox was known to be empty

	ctx    context.Context
	cancel context.CancelFunc
	root   kcache.Controller
	nodes  []*node
	hist   []string
	view   map[string]metav1.Object // what the root controller should hold before filtering

	markRV    int
	dropping  int
	finished  bool
	rootReady bool
	rootDead  bool // the first list failed: nothing ever becomes ready, everything becomes done
	firstReq  *listReq
}

func (w *world) h(format string, args ...interface{}) {
	s := fmt.Sprintf(format, args...)
	w.hist = append(w.hist, s)
	traceOp("%s", s)
}

func (w *world) history() string { return "\n  " + strings.Join(w.hist, "\n  ") }

// fail reports a violation of the world's property with the history attached.
func (w *world) fail(format string, args ...interface{}) {
	w.t.Fatalf("%s violation: %s\nHISTORY:%s", w.cfg.prop, fmt.Sprintf(format, args...), w.history())
}

// waitFor waits for ch with the wedge bound; a bound hit is confirmed once
// with an extended wait before it is reported.
func (w *world) waitFor(ch <-chan struct{}, what string) {
	if waitWedge(ch) {
		return
	}
	_, dump := libGoroutines()
	if len(dump) > 6000 {
		dump = dump[:6000]
	}
	w.fail("WEDGE: %s did not happen within the bound\nlibrary goroutines:\n%s", what, dump)
}

func waitWedge(ch <-chan struct{}) bool {
	first := wedgeBound
	if atomic.LoadInt32(&wedgeSeen) != 0 {
		first = wedgeAfter
	}
	tm := time.NewTimer(first)
	defer tm.Stop()
	select {
	case <-ch:
		return true
	case <-tm.C:
	}
	if atomic.LoadInt32(&wedgeSeen) != 0 {
		return false
	}
	tm2 := time.NewTimer(wedgeConfirm)
	defer tm2.Stop()
	select {
	case <-ch:
		statSlow("harness")
		return true
	case <-tm2.C:
		atomic.StoreInt32(&wedgeSeen, 1)
		return false
	}
}

func newWorld(t failer, cfg worldCfg) *world {
	w := &world{t: t, cfg: cfg, api: newFakeAPI(), plog: newPlog(cfg.perturb, cfg.seed), fam: treeFilterFamily(), view: map[string]metav1.Object{}}
	w.ctx, w.cancel = context.WithCancel(context.Background())
	b := kcache.NewBuilder().Context(w.ctx).Log(w.plog).Client(w.api)
	period := cfg.period
	if period == 0 {
		period = time.Hour
	}
	b.Lister().RefreshPeriod(period)
	if cfg.rootFilter >= 0 {
		b.Filter(wrapFilter(w.fam[cfg.rootFilter]))
	}
	if cfg.gateFirst {
		w.api.gated = true
	}
	w.api.plans = append(w.api.plans, cfg.plans...)
	if cfg.objType != "" {
		w.api.newObj = typedPkgs[cfg.objType].newObj
		if cfg.typedLists {
			w.api.mkList = typedPkgs[cfg.objType].mkList
		}
	}
	var root kcache.Controller
	var err error
	if cfg.typed != "" {
		root, err = typedPkgs[cfg.typed].build(w.ctx, w.plog, w.api)
	} else {
		root, err = b.Create()
	}
	if err != nil {
		t.Fatalf("harness: cannot create controller: %v", err)
	}
	w.root = root
	w.h("controller filter=%s period=%v gateFirst=%v", w.filtName(cfg.rootFilter), period, cfg.gateFirst)
	if cfg.gateFirst {
		req := w.api.awaitListWedge()
		if req == nil {
			w.fail("WEDGE: the controller never issued its first List call")
		}
		w.firstReq = req
		if !cfg.gatedRelist {
			w.api.mu.Lock()
			w.api.gated = false
			w.api.mu.Unlock()
		}
	} else {
		w.waitFor(root.Ready(), "root controller Ready() after the first list")
		w.rootReady = true
		if cfg.gatedRelist {
			w.api.mu.Lock()
			w.api.gated = true
			w.api.mu.Unlock()
		}
	}
	rn := &node{name: "root", kind: "root", ctl: root, filt: cfg.rootFilter}
	w.addNode(rn)
	return w
}

func (w *world) filtName(i int) string {
	switch {
	case i == -1:
		return "none"
	case i == -2:
		return "not-supplied"
	case i == -3:
		return "raw filter.All()"
	}
	return fmt.Sprintf("#%d:%s", i, w.fam[i])
}

// passSub is what the generated typed adapters are, minus the type
// conversion: one goroutine that forwards Events() through an unbuffered
// channel.  The untyped world of a typed/untyped differential wears it so that
// both consumers have exactly the same buffering (an adapter holds one event
// in hand while its consumer is not reading).
type passSub struct {
	kcache.Subscription
	out chan kcache.Event
}

func newPassSub(s kcache.Subscription) *passSub {
	a := &passSub{Subscription: s, out: make(chan kcache.Event)}
	go func() {
		defer close(a.out)
		for ev := range s.Events() {
			a.out <- ev
		}
	}()
	return a
}

func (a *passSub) Events() <-chan kcache.Event { return a.out }

func (w *world) addNode(n *node) {
	n.id = len(w.nodes)
	if n.name == "" {
		n.name = fmt.Sprintf("n%d", n.id)
	}
	n.note = make(chan struct{}, 1)
	n.eof = make(chan struct{})
	n.tokens = make(chan struct{}, 1024)
	n.checkGet = w.cfg.checkGet
	if n.kind != "mon" {
		if p := n.publisher(); p != nil {
			l, err := p.Subscribe()
			if err != nil {
				w.fail("Subscribe() on live publisher %s failed: %v", n.path(), err)
			}
			n.leaf = l
		} else if n.fsub != nil {
			n.leaf = n.fsub
		} else {
			n.leaf = n.sub
		}
		if w.cfg.passThrough {
			n.leaf = newPassSub(n.leaf)
		}
		go n.pump()
		if w.cfg.checkReady {
			go func() {
				select {
				case <-n.leaf.Ready():
					objs, err := n.leaf.Cache().List()
					n.mu.Lock()
					n.atReady, n.atReadyErr, n.atReadySet = keyVersions(objs), err, true
					n.mu.Unlock()
				case <-n.eof:
				}
			}()
		}
	}
	w.nodes = append(w.nodes, n)
	if n.parent != nil {
		n.parent.children = append(n.parent.children, n)
	}
}

func (n *node) gate() chan struct{} {
	n.mu.Lock()
	defer n.mu.Unlock()
	return n.stall
}

func (n *node) pump() {
	defer close(n.eof)
	evch := n.leaf.Events()
	readych := n.leaf.Ready()
	for {
		if g := n.gate(); g != nil {
			select {
			case <-g:
			case <-n.tokens:
			}
		}
		ev, ok := <-evch
		if !ok {
			return
		}
		isReady := false
		select {
		case <-readych:
			isReady = true
		default:
		}
		obj := ev.Resource()
		if obj == nil {
			n.mu.Lock()
			if n.early == "" {
				n.early = fmt.Sprintf("an event of type %s without an object was delivered", ev.Type())
			}
			n.mu.Unlock()
			continue
		}
		if d := atomic.LoadInt64(&n.delayNs); d > 0 {
			time.Sleep(time.Duration(d))
		}
		var got metav1.Object
		var gerr error
		if n.checkGet && obj != nil && obj.GetNamespace() != markerNS {
			got, gerr = n.leaf.Cache().Get(obj.GetNamespace(), obj.GetName())
		}
		n.mu.Lock()
		if !isReady && n.early == "" {
			n.early = fmt.Sprintf("event %s %s delivered before Ready() closed", ev.Type(), objStr(obj))
		}
		if obj != nil {
			if v := objVersion(obj); v > n.maxRV {
				n.maxRV = v
			}
		}
		if obj != nil && obj.GetNamespace() == markerNS {
			if v := objVersion(obj); v > n.markSeen {
				n.markSeen = v
			}
			n.nmarks++
			if ev.Type() != kcache.EventTypeDelete {
				if n.zzSeen == nil {
					n.zzSeen = map[string]bool{}
				}
				n.zzSeen[obj.GetName()] = true
			}
			n.mu.Unlock()
			select {
			case n.note <- struct{}{}:
			default:
			}
			continue
		}
		rec := evRec{ev.Type(), obj}
		n.events = append(n.events, rec)
		if n.checkGet && gerr == nil && got != nil && obj != nil && objVersion(got) < objVersion(obj) && n.stale == "" {
			n.stale = fmt.Sprintf("after receiving %s the cache returned the older %s", rec, objStr(got))
		}
		if n.mirrorOn && n.mirrorErr == "" {
			n.applyMirror(rec)
		}
		n.mu.Unlock()
	}
}

// applyMirror: the strict event algebra.  Baselines are only ever taken at
// quiescent points (after a barrier), so strictness is sound in racy mode as
// well: a node's events are an exact delta of its own cache under every
// schedule.  (A version-aware "idempotent" mirror was tried first and is
// wrong: a stale in-flight Delete legitimately removes a newer cached object
// after a Refilter has jumped ahead to the parent's listing.)
func (n *node) applyMirror(e evRec) {
	if e.Obj == nil {
		n.mirrorErr = "event without object"
		return
	}
	k := objKey(e.Obj)
	old, present := n.mirror[k]
	switch e.Type {
	case kcache.EventTypeCreate:
		if present {
			n.mirrorErr = fmt.Sprintf("Create of %s but the mirror already holds %s", objStr(e.Obj), objStr(old))
			return
		}
		n.mirror[k] = e.Obj
	case kcache.EventTypeUpdate:
		if !present {
			n.mirrorErr = fmt.Sprintf("Update of %s but the key is absent from the mirror", objStr(e.Obj))
			return
		}
		if objVersion(e.Obj) <= objVersion(old) {
			n.mirrorErr = fmt.Sprintf("Update to %s is not strictly newer than %s", objStr(e.Obj), objStr(old))
			return
		}
		n.mirror[k] = e.Obj
	case kcache.EventTypeDelete:
		if !present {
			n.mirrorErr = fmt.Sprintf("Delete of %s but the key is absent from the mirror", objStr(e.Obj))
			return
		}
		delete(n.mirror, k)
	default:
		n.mirrorErr = fmt.Sprintf("unknown event type %q", e.Type)
	}
}

// ---------------------------------------------------------------- model

func (w *world) pred(i int) func(metav1.Object) bool {
	if i < 0 {
		return func(metav1.Object) bool { return true }
	}
	return w.fam[i].eval
}

// effective: conjunction of the reference predicates on the path root -> n.
func (w *world) effective(n *node, o metav1.Object) bool {
	for x := n; x != nil; x = x.parent {
		if x.kind == "root" {
			if x.filt >= 0 && !w.fam[x.filt].eval(o) {
				return false
			}
			continue
		}
		if x.isFiltered() {
			if x.filt < 0 || !w.fam[x.filt].eval(o) {
				return false
			}
		}
	}
	return true
}

// markerBlind: a node on the path filters with the raw filter.All(), which
// rejects the marker as well: the node is ready but cannot take part in the
// marker wait of a barrier.
func (w *world) markerBlind(n *node) bool {
	for x := n; x != nil; x = x.parent {
		if x.filt == -3 {
			return true
		}
	}
	return false
}

// shouldBeReady: the readiness model — every deferred node on the path has
// been given a filter (the root is ready: newWorld waits for it).
func (w *world) shouldBeReady(n *node) bool {
	if !w.rootReady {
		return false
	}
	for x := n; x != nil; x = x.parent {
		if x.isDeferred() && x.filt == -2 {
			return false
		}
	}
	return true
}

func (w *world) expected(n *node) []string {
	var out []string
	for _, o := range w.view {
		if w.effective(n, o) {
			out = append(out, objKey(o)+"@"+o.GetResourceVersion())
		}
	}
	sort.Strings(out)
	return out
}

func (w *world) live() []*node {
	var out []*node
	for _, n := range w.nodes {
		if !n.closed {
			out = append(out, n)
		}
	}
	return out
}

func (w *world) livePublishers() []*node {
	var out []*node
	for _, n := range w.nodes {
		if !n.closed && n.publisher() != nil {
			out = append(out, n)
		}
	}
	return out
}

func (w *world) liveFiltered() []*node {
	var out []*node
	for _, n := range w.nodes {
		if !n.closed && n.isFiltered() {
			out = append(out, n)
		}
	}
	return out
}

// ---------------------------------------------------------------- operations

func (w *world) put(ns, name string, labels map[string]string) {
	dropped := w.dropping > 0
	if dropped {
		w.dropping--
	}
	w.noteTraffic()
	rv := w.api.put(ns, name, labels)
	if !dropped && w.rootReady {
		w.api.mu.Lock()
		w.view[ns+"/"+name] = w.api.objs[ns+"/"+name]
		w.api.mu.Unlock()
	}
	w.h("put %s/%s%s -> rv %d%s", ns, name, labelsStr(labels), rv, map[bool]string{true: " (dropped by the watch)", false: ""}[dropped])
}

func (w *world) del(ns, name string) bool {
	if !w.api.has(ns, name) {
		return false
	}
	dropped := w.dropping > 0
	if dropped {
		w.dropping--
	}
	w.noteTraffic()
	rv, _ := w.api.del(ns, name)
	if !dropped && w.rootReady {
		delete(w.view, ns+"/"+name)
	}
	w.h("del %s/%s -> rv %d%s", ns, name, rv, map[bool]string{true: " (dropped by the watch)", false: ""}[dropped])
	return true
}

// putForeign publishes an object of a type none of the typed packages handles.
// A typed world must skip it (it never enters the view); an untyped world sees it.
func (w *world) putForeign(ns, name string, labels map[string]string) {
	ex := w.api.has(ns, name)
	obj := &corev1.ConfigMap{ObjectMeta: metav1.ObjectMeta{Namespace: ns, Name: name, Labels: labels}}
	w.noteTraffic()
	rv := w.api.putObj(obj)
	if w.cfg.typed == "" {
		w.view[ns+"/"+name] = obj
	} else {
		delete(w.view, ns+"/"+name)
	}
	w.h("put foreign-typed object (ConfigMap) %s/%s%s -> rv %d (replaces existing: %v)", ns, name, labelsStr(labels), rv, ex)
}

// dropNext makes the watch lose the next n non-marker events.
func (w *world) dropNext(n int) {
	w.api.mu.Lock()
	w.api.dropNext += n
	w.api.mu.Unlock()
	w.dropping += n
	w.h("watch will drop the next %d events", n)
}

// relist releases the pending gated List (snapshot taken now) and waits until
// the controller has applied it (observed as the Watch call at the list's RV).
func (w *world) relist() {
	if !w.cfg.gatedRelist {
		panic("relist without gatedRelist")
	}
	req := w.api.awaitListWedge()
	if req == nil {
		w.fail("WEDGE: the controller issued no further List call (refresh period %v)", w.cfg.period)
	}
	w.completeRelist(req)
}

// completeRelist releases a pending gated List (snapshot taken now) and waits until the
// controller has applied it.  Releasing without waiting would let the (by then stale)
// list be applied at an arbitrary later moment, transiently undoing newer watch events
// until the re-established watch replays them.
func (w *world) completeRelist(req *listReq) {
	w.api.mu.Lock()
	nw := len(w.api.watchCalls)
	w.api.mu.Unlock()
	snap := req.release(w.api, false)
	w.h("relist #%d released at rv %d (%d objects)", req.k, snap.rv, len(snap.items))
	deadline := time.Now().Add(wedgeBound + wedgeConfirm)
	for {
		w.api.mu.Lock()
		seen := false
		for _, wc := range w.api.watchCalls[nw:] {
			if wc.rv == fmt.Sprint(snap.rv) {
				seen = true
			}
		}
		w.api.mu.Unlock()
		if seen {
			break
		}
		if time.Now().After(deadline) {
			w.fail("WEDGE: relist #%d was released but no Watch(resourceVersion=%d) followed", req.k, snap.rv)
		}
		time.Sleep(20 * time.Microsecond)
	}
	// a completed list makes the controller's view equal to the snapshot
	w.view = map[string]metav1.Object{}
	for _, o := range snap.items {
		if o.GetNamespace() != markerNS {
			w.view[objKey(o)] = o
		}
	}
	w.api.mu.Lock()
	w.api.dropNext = 0
	w.api.mu.Unlock()
	w.dropping = 0
}

// releaseFirst lets the gated first list return (snapshot taken now), or
// fail with the given fault.
func (w *world) releaseFirst(fault listFault) {
	if w.firstReq == nil {
		panic("releaseFirst without a pending first list")
	}
	req := w.firstReq
	w.firstReq = nil
	if fault != lfNone {
		req.fail(fault)
		w.rootDead = true
		w.h("first list fails with %s", fault)
		return
	}
	snap := req.release(w.api, false)
	w.h("first list released at rv %d (%d objects)", snap.rv, len(snap.items))
	w.view = map[string]metav1.Object{}
	for _, o := range snap.items {
		if o.GetNamespace() != markerNS {
			w.view[objKey(o)] = o
		}
	}
	w.waitFor(w.root.Ready(), "root controller Ready() after the first list was released")
	w.rootReady = true
}

func (w *world) attach(p *node, kind string, filt int) *node {
	n := &node{kind: kind, parent: p, filt: -1}
	pub := p.publisher()
	var err error
	switch kind {
	case "sub":
		n.sub, err = pub.Subscribe()
	case "fsub":
		n.filt = filt
		n.fsub, err = pub.SubscribeWithFilter(wrapFilter(w.fam[filt]))
	case "dsub":
		n.filt = -2
		n.fsub, err = pub.SubscribeForFilter()
	case "clone":
		n.ctl, err = pub.Clone()
	case "fclone":
		n.filt = filt
		n.fctl, err = pub.CloneWithFilter(wrapFilter(w.fam[filt]))
	case "dclone":
		n.filt = -2
		n.fctl, err = pub.CloneForFilter()
	default:
		panic("attach kind " + kind)
	}
	if err != nil {
		w.fail("attach %s under live publisher %s failed: %v", kind, p.path(), err)
	}
	w.addNode(n)
	w.h("attach %s kind=%s parent=%s filter=%s", n.name, kind, p.name, w.filtName(n.filt))
	return n
}

func (w *world) refilter(n *node, filt int) {
	f := wrapFilter(w.fam[filt])
	var err error
	done := make(chan struct{})
	go func() {
		if n.fsub != nil {
			err = n.fsub.Refilter(f)
		} else {
			err = n.fctl.Refilter(f)
		}
		close(done)
	}()
	w.waitFor(done, fmt.Sprintf("Refilter() call on %s returning", n.path()))
	if err != nil {
		w.fail("Refilter on live node %s failed: %v", n.path(), err)
	}
	w.h("refilter %s %s -> %s", n.name, w.filtName(n.filt), w.filtName(filt))
	n.filt = filt
}

// refilterRawAll supplies the library's own filter.All() (equal to the
// initial filter of a for-filter node).
func (w *world) refilterRawAll(n *node) {
	var err error
	done := make(chan struct{})
	go func() {
		if n.fsub != nil {
			err = n.fsub.Refilter(filter.All())
		} else {
			err = n.fctl.Refilter(filter.All())
		}
		close(done)
	}()
	w.waitFor(done, fmt.Sprintf("Refilter() call on %s returning", n.path()))
	if err != nil {
		w.fail("Refilter on live node %s failed: %v", n.path(), err)
	}
	w.h("refilter %s %s -> raw filter.All()", n.name, w.filtName(n.filt))
	n.filt = -3
}

// rawAcceptAll: unwrapped filters that accept every object (markers included), each a different
// spelling a caller may use: the library's own Null(), the empty conjunction, composites of those,
// the negation of All(), and label filters without requirements.
var rawAcceptAll = []struct {
	name string
	mk   func() filter.Filter
}{
	{"filter.Null()", func() filter.Filter { return filter.Null() }},
	{"filter.And()", func() filter.Filter { return filter.And() }},
	{"filter.Or(filter.And())", func() filter.Filter { return filter.Or(filter.And()) }},
	{"filter.Not(filter.All())", func() filter.Filter { return filter.Not(filter.All()) }},
	{"filter.Labels(nil)", func() filter.Filter { return filter.Labels(nil) }},
	{"filter.Labels({})", func() filter.Filter { return filter.Labels(map[string]string{}) }},
	{"filter.Selector(labels.Everything())", func() filter.Filter { return filter.Selector(labels.Everything()) }},
	{"filter.LabelSelector(&LabelSelector{})", func() filter.Filter { return filter.LabelSelector(&metav1.LabelSelector{}) }},
	{"filter.And(filter.Null(), filter.Or(filter.Null()))", func() filter.Filter { return filter.And(filter.Null(), filter.Or(filter.Null())) }},
}

// refilterRawNull supplies one of the unwrapped accept-everything filters (markers pass them
// anyway); the reference predicate is the family's accept-all member.
func (w *world) refilterRawNull(n *node, flavour int) {
	fl := rawAcceptAll[flavour%len(rawAcceptAll)]
	f := fl.mk()
	var err error
	done := make(chan struct{})
	go func() {
		if n.fsub != nil {
			err = n.fsub.Refilter(f)
		} else {
			err = n.fctl.Refilter(f)
		}
		close(done)
	}()
	w.waitFor(done, fmt.Sprintf("Refilter() call on %s returning", n.path()))
	if err != nil {
		w.fail("Refilter on live node %s failed: %v", n.path(), err)
	}
	w.h("refilter %s %s -> raw %s", n.name, w.filtName(n.filt), fl.name)
	n.filt = 0
}

func (w *world) markClosed(n *node) {
	n.closed = true
	for _, c := range n.children {
		w.markClosed(c)
	}
}

func (w *world) closeNode(n *node) {
	w.h("close %s (%s)", n.name, n.kind)
	n.closeReal()
	w.markClosed(n)
}

// stallNode makes the node's consumer stop reading.
func (w *world) stallNode(n *node) {
	n.mu.Lock()
	if n.stall == nil {
		n.stall = make(chan struct{})
	}
	n.mu.Unlock()
	w.h("stall consumer of %s", n.name)
}

// grantStalled lets the stalled consumer of n read exactly k more events and
// stall again.
func (w *world) grantStalled(n *node, k int) {
	for i := 0; i < k; i++ {
		n.tokens <- struct{}{}
	}
	w.h("stalled consumer of %s reads %d events and stops again", n.name, k)
}

func (w *world) unstallNode(n *node) {
	n.mu.Lock()
	if n.stall != nil {
		close(n.stall)
		n.stall = nil
	}
	n.mu.Unlock()
}

func (n *node) isStalled() bool {
	n.mu.Lock()
	defer n.mu.Unlock()
	return n.stall != nil
}

// ---------------------------------------------------------------- barrier

// noteTraffic is called before every event the harness makes the server emit.
// The barrier acknowledges events only for nodes that forward the marker.  A
// node that is not ready yet (a for-filter node without a filter, a node below
// a not-ready parent) or whose filter rejects the marker still receives every
// event in the inbox of its internal subscription and has to discard it; its
// goroutine normally does so at once, but nothing makes the harness wait for
// it, and under GOMAXPROCS=2 a goroutine can sit in a run queue for a whole
// scheduler time slice while the rest of the pipeline moves > EventBufsiz
// events: the inbox then overruns (dropping events is the library's documented
// reaction to a consumer that lags by a full buffer) and, once the node is made
// ready, the stale half of its inbox is applied without the corrections that
// were dropped.  That is the harness exceeding the buffer bound every other
// part of it respects, not a defect (DESIGN.md 10.10).  So: after every
// EventBufsiz/3 events, if such a node exists, wait until every goroutine of
// the process is parked, i.e. until every inbox is empty.
func (w *world) noteTraffic() {
	w.unacked++
	if w.unacked < kcache.EventBufsiz/3 {
		return
	}
	w.unacked = 0
	if w.cfg.racy || !w.rootReady {
		return
	}
	uncovered := false
	for _, n := range w.nodes {
		if n.closed || n.kind == "root" || n.isStalled() {
			continue
		}
		if !w.shouldBeReady(n) || w.markerBlind(n) {
			uncovered = true
			break
		}
	}
	if !uncovered {
		return
	}
	if !waitQuiescent(wedgeBoundNow()) {
		statSlow("harness-quiescence")
	}
	statExtraAdd(w.cfg.prop, "harness_quiescence_waits_for_nodes_outside_the_barrier", 1)
}

func (w *world) barrierNodes() []*node {
	var out []*node
	for _, n := range w.nodes {
		if n.closed || n.kind == "mon" || n.isStalled() || !w.shouldBeReady(n) {
			continue
		}
		out = append(out, n)
	}
	return out
}

func (n *node) waitMark(rv int) bool {
	first := wedgeBound
	if atomic.LoadInt32(&wedgeSeen) != 0 {
		first = wedgeAfter
	}
	deadline := time.Now().Add(first)
	extended := false
	for {
		n.mu.Lock()
		seen := n.markSeen
		n.mu.Unlock()
		if seen >= rv {
			if extended {
				statSlow("harness")
			}
			return true
		}
		remain := time.Until(deadline)
		if remain <= 0 {
			if extended || atomic.LoadInt32(&wedgeSeen) != 0 {
				atomic.StoreInt32(&wedgeSeen, 1)
				return false
			}
			extended = true
			deadline = time.Now().Add(wedgeConfirm)
			continue
		}
		tm := time.NewTimer(remain)
		select {
		case <-n.note:
		case <-n.eof:
			tm.Stop()
			// closed underneath us: let the caller's closed-set oracle report it
			return false
		case <-tm.C:
		}
		tm.Stop()
	}
}

func (w *world) barrier1() {
	nodes := w.barrierNodes()
	mons := w.monitorsAtBarrier()
	for _, n := range nodes {
		w.waitFor(n.readyCh(), fmt.Sprintf("Ready() of %s (parent ready and filter supplied)", n.path()))
	}
	if !w.rootReady {
		return // nothing can flow before the first list has been applied
	}
	w.noteTraffic()
	rv := w.api.put(markerNS, "marker", nil)
	w.markRV = rv
	for _, n := range nodes {
		if w.markerBlind(n) {
			continue
		}
		if !n.waitMark(rv) {
			select {
			case <-n.eof:
				w.fail("node %s: Events() was closed although neither it nor an ancestor was closed", n.path())
			default:
			}
			_, dump := libGoroutines()
			if len(dump) > 6000 {
				dump = dump[:6000]
			}
			w.fail("WEDGE: barrier marker rv %d never reached %s (overruns logged: %d, watcher drops: %d)\nlibrary goroutines:\n%s", rv, n.path(), w.plog.Overruns(), w.plog.WatchDrops(), dump)
		}
	}
	for _, n := range mons {
		if w.markerBlind(n) {
			continue
		}
		bound := wedgeBound + wedgeConfirm
		if isWedgeSeen() {
			bound = wedgeAfter // (a wedge was already confirmed in this process: the shrinker's re-runs need not wait as long)
		}
		if !n.cb.waitMark(rv, bound) {
			setWedgeSeen()
			if isClosedCh(n.mon.Done()) {
				w.fail("monitor %s is Done() although neither it nor an ancestor was closed", n.path())
			}
			w.fail("WEDGE: barrier marker rv %d never reached the handler of monitor %s", rv, n.path())
		}
	}
}

func (w *world) barrier() {
	w.barrier1()
	w.barrier1()
}

// barrierRetry: a barrier for the moment right after stalled consumers were
// released: their buffers may still be full, so a marker can be dropped on the
// way to them (by design); markers are re-sent until every node has seen one.
func (w *world) barrierRetry() {
	deadline := time.Now().Add(wedgeBound + wedgeConfirm)
	for round := 0; ; round++ {
		nodes := w.barrierNodes()
		mons := w.monitorsAtBarrier()
		rv := w.api.put(markerNS, "marker", nil)
		w.markRV = rv
		ok := true
		for _, n := range nodes {
			if w.markerBlind(n) {
				continue
			}
			d := time.Now().Add(100 * time.Millisecond)
			for {
				n.mu.Lock()
				seen := n.markSeen
				n.mu.Unlock()
				if seen >= rv {
					break
				}
				if time.Now().After(d) {
					ok = false
					break
				}
				time.Sleep(50 * time.Microsecond)
			}
		}
		for _, n := range mons {
			if w.markerBlind(n) {
				continue
			}
			if !n.cb.waitMark(rv, 100*time.Millisecond) {
				ok = false
			}
		}
		if ok {
			w.barrier()
			return
		}
		if time.Now().After(deadline) {
			w.fail("WEDGE: released consumers never caught up with the stream (markers re-sent %d times)", round+1)
		}
	}
}

// monitorsAtBarrier: live monitors whose handler is not blocked and whose
// publisher should be ready; they see the marker through a callback (or in
// the listing handed to OnInitialize).
func (w *world) monitorsAtBarrier() []*node {
	var out []*node
	for _, n := range w.nodes {
		if n.kind == "mon" && !n.closed && !n.cb.blocked() && w.shouldBeReady(n.parent) {
			out = append(out, n)
		}
	}
	return out
}

// ---------------------------------------------------------------- checks

func (n *node) snapshotObs() (events []evRec, mirror []string, mirrorErr, early, stale string) {
	n.mu.Lock()
	defer n.mu.Unlock()
	events = append([]evRec(nil), n.events...)
	for _, o := range n.mirror {
		mirror = append(mirror, objKey(o)+"@"+o.GetResourceVersion())
	}
	sort.Strings(mirror)
	return events, mirror, n.mirrorErr, n.early, n.stale
}

// totalCount: every event received, markers included.
func (n *node) totalCount() int {
	n.mu.Lock()
	defer n.mu.Unlock()
	return len(n.events) + n.nmarks
}

func (n *node) eventCount() int {
	n.mu.Lock()
	defer n.mu.Unlock()
	return len(n.events)
}

func (n *node) eventsFrom(i int) []evRec {
	n.mu.Lock()
	defer n.mu.Unlock()
	return append([]evRec(nil), n.events[i:]...)
}

func isClosedCh(ch <-chan struct{}) bool {
	select {
	case <-ch:
		return true
	default:
		return false
	}
}

// checkQuiet: barrier, then the exact oracles of quiet mode for every node:
// closed set, readiness model, cache == conjunction of reference predicates
// over the controller's view, strict mirror == cache, no early event.
func (w *world) checkQuiet() {
	w.barrier()
	if w.cfg.stepChecked {
		// The barrier only covers nodes that are ready.  A node that is not ready yet may still hold
		// unprocessed parent events in its inbox (it will drop them); if the next step made it ready
		// first, those stale events would legitimately be applied after its sync.  The per-step
		// oracles (no event at the first baseline, listing at Ready) need true quiescence: wait until
		// every other goroutine of the process is parked.
		if !waitQuiescent(wedgeBoundNow()) {
			statSlow("harness-quiescence")
		}
	}
	for _, n := range w.nodes {
		if n.kind == "mon" {
			if n.closed {
				w.waitFor(n.doneCh(), fmt.Sprintf("Done() of closed monitor %s", n.path()))
			} else if isClosedCh(n.doneCh()) {
				w.fail("live monitor %s: Done() closed although neither it nor an ancestor was closed", n.path())
			}
			continue
		}
		if n.closed {
			if n.isStalled() {
				// its consumer is not reading: Done() must close regardless; only then does the consumer
				// resume to see the channel closed behind the buffered events
				w.waitFor(n.doneCh(), fmt.Sprintf("Done() of closed node %s whose consumer is stalled", n.path()))
				w.unstallNode(n)
			}
			w.waitFor(n.eof, fmt.Sprintf("Events() of closed node %s being closed", n.path()))
			w.waitFor(n.doneCh(), fmt.Sprintf("Done() of closed node %s", n.path()))
			continue
		}
		if isClosedCh(n.eof) {
			w.fail("live node %s: Events() closed although neither it nor an ancestor was closed", n.path())
		}
		if isClosedCh(n.doneCh()) {
			w.fail("live node %s: Done() closed although neither it nor an ancestor was closed", n.path())
		}
		ready := isClosedCh(n.readyCh())
		if !w.shouldBeReady(n) {
			if ready {
				w.fail("node %s is Ready() although a deferred node on its path has no filter yet", n.path())
			}
			if c := n.eventCount(); c > 0 {
				w.fail("node %s delivered %d events before becoming ready", n.path(), c)
			}
			continue
		}
		if !ready {
			w.fail("node %s not Ready() after a barrier although its parent is ready and its filter supplied", n.path())
		}
		if n.isStalled() {
			continue
		}
		got, err := n.leaf.Cache().List()
		if err != nil {
			w.fail("node %s: Cache().List() failed on a live node: %v", n.path(), err)
		}
		gk, want := keyVersions(got), w.expected(n)
		if w.markerBlind(n) {
			// a node below the library's own filter.All() sees no marker: no barrier covers it.
			// Its reference content is empty for good; give the pending refilter time to land.
			deadline := time.Now().Add(wedgeBoundNow())
			for !sameStrings(gk, want) && time.Now().Before(deadline) {
				time.Sleep(100 * time.Microsecond)
				if got, err = n.leaf.Cache().List(); err != nil {
					w.fail("node %s: Cache().List() failed on a live node: %v", n.path(), err)
				}
				gk = keyVersions(got)
			}
			if !sameStrings(gk, want) {
				setWedgeSeen()
				w.fail("node %s was refiltered to the accept-nothing filter filter.All() but its cache still holds %v", n.path(), gk)
			}
			if w.cfg.checkReady {
				// became ready under filter.All(): the listing taken at Ready must be empty as well
				n.mu.Lock()
				set, checked, at := n.atReadySet, n.atReadyChecked, n.atReady
				n.atReadyChecked = n.atReadyChecked || set
				n.mu.Unlock()
				if set && !checked && len(at) != 0 {
					w.fail("node %s: Cache().List() taken at the instant Ready() was observed returned %v, the synced content under filter.All() is empty", n.path(), at)
				}
			}
			n.baseline = false // its stream is not synchronised with the barriers: re-baseline once it sees markers again
			n.rebased = true
			n.mu.Lock()
			n.mirrorOn = false
			n.mu.Unlock()
			continue
		}
		if !sameStrings(gk, want) {
			w.fail("node %s: cache %v, reference (filters on the path applied to the controller's view) %v", n.path(), gk, want)
		}
		if w.cfg.checkReady {
			// a cache read made once Ready() is observed already returns the synced content
			deadline := time.Now().Add(wedgeBound)
			for {
				n.mu.Lock()
				set, checked, at, aerr := n.atReadySet, n.atReadyChecked, n.atReady, n.atReadyErr
				n.atReadyChecked = n.atReadyChecked || set
				n.mu.Unlock()
				if set {
					if !checked {
						if aerr != nil {
							w.fail("node %s: List() right after Ready() failed: %v", n.path(), aerr)
						}
						if !sameStrings(at, want) {
							w.fail("node %s: Cache().List() taken at the instant Ready() was observed returned %v, the synced content is %v", n.path(), at, want)
						}
					}
					break
				}
				if time.Now().After(deadline) {
					break
				}
				time.Sleep(20 * time.Microsecond)
			}
		}
		_, mirror, merr, early, stale := n.snapshotObs()
		if early != "" {
			w.fail("node %s: %s", n.path(), early)
		}
		if stale != "" {
			w.fail("node %s: %s", n.path(), stale)
		}
		if merr != "" && !n.lossy {
			w.fail("node %s: event stream is not a well-formed delta: %s", n.path(), merr)
		}
		if !n.baseline {
			// first quiescent point at which the node is ready.  Nothing was in
			// flight when it became ready and nothing has been published since,
			// so any event in its log was sent no later than Ready() closed.
			if c := n.eventCount(); c > 0 && w.cfg.stepChecked && !n.rebased {
				w.fail("node %s delivered %d events (first: %s) no later than the moment its Ready() closed", n.path(), c, n.eventsFrom(0)[0])
			}
			// take the consumer's baseline
			n.mu.Lock()
			n.mirror = map[string]metav1.Object{}
			for _, o := range got {
				if o.GetNamespace() != markerNS {
					n.mirror[objKey(o)] = o
				}
			}
			n.mirrorOn = true
			n.mu.Unlock()
			n.baseline = true
		} else if !n.lossy && !sameStrings(mirror, gk) {
			w.fail("node %s: a consumer mirroring the cache by replaying Events() holds %v but the cache holds %v", n.path(), mirror, gk)
		}
	}
}

// finish closes the root and checks the cascade and the absence of leaks.
func (w *world) finish() { w.finishOpt(true) }

// finishOpt: leakCheck=false when another world is still alive in this process.
func (w *world) finishOpt(leakCheck bool) {
	if w.finished {
		return
	}
	w.finished = true
	for _, n := range w.nodes {
		w.unstallNode(n)
	}
	done := make(chan struct{})
	go func() { w.root.Close(); close(done) }()
	w.waitFor(done, "root Close() returning")
	w.waitFor(w.root.Done(), "root Done() after Close()")
	for _, n := range w.nodes {
		if n.kind == "mon" {
			w.waitFor(n.doneCh(), fmt.Sprintf("Done() of monitor %s after root close", n.path()))
			continue
		}
		w.waitFor(n.eof, fmt.Sprintf("Events() of %s being closed after root close", n.path()))
		w.waitFor(n.doneCh(), fmt.Sprintf("Done() of %s after root close", n.path()))
	}
	if !leakCheck {
		return
	}
	// the context is still live: the library must wind down on Close() alone
	bound := wedgeBound
	if atomic.LoadInt32(&wedgeSeen) != 0 {
		bound = wedgeAfter
	}
	if c, dump := waitNoLibGoroutines(bound); c != 0 {
		if len(dump) > 6000 {
			dump = dump[:6000]
		}
		w.cancel()
		w.fail("%d goroutines started by the library are still running after the root is done:\n%s", c, dump)
	}
	w.cancel()
}

// abort tears the world down without judging (used when a case already failed).
func (w *world) abort() {
	if w.finished {
		return
	}
	w.finished = true
	for _, n := range w.nodes {
		w.unstallNode(n)
		if n.cb != nil {
			n.cb.unblock() // a handler left blocked by a failed case would keep its monitor goroutine alive for good
		}
	}
	w.cancel()
	go w.root.Close()
	waitNoLibGoroutines(500 * time.Millisecond)
}
