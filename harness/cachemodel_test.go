//go:build verif

package verifharness

// Reference model of the cache (C01) and the event algebra (C02), written
// from the property statements.
//
// The model is deliberately relaxed exactly where the statements are silent:
//   - a delete whose version is older than the cached one: either outcome;
//   - a key that occurs more than once in one list, or whose entry carries a
//     non-numeric resource version: only the invariants are demanded (result
//     is absent or one of the candidate objects, satisfies the filter, events
//     replay correctly, nothing crashes or wedges).

import (
	"fmt"
	"sort"
	"strconv"

	"github.com/boz/kcache"
	metav1 "k8s.io/apimachinery/pkg/apis/meta/v1"
)

type mEntry struct {
	ver int
	obj metav1.Object
}

type cacheModel struct {
	items  map[string]mEntry
	accept func(metav1.Object) bool
}

func newCacheModel(accept func(metav1.Object) bool) *cacheModel {
	return &cacheModel{items: map[string]mEntry{}, accept: accept}
}

// expectation for one key after an operation: exact (a specific object or
// absent), or a set of allowed outcomes.
type expect struct {
	exact   bool
	obj     metav1.Object   // exact: nil = absent
	allowed []metav1.Object // relaxed: any of these, or absent
}

func parseVersion(o metav1.Object) (int, bool) {
	v, err := strconv.Atoi(o.GetResourceVersion())
	return v, err == nil
}

// predictUpdate returns the per-key expectation for update(type, obj).
func (m *cacheModel) predictUpdate(typ kcache.EventType, obj metav1.Object) map[string]expect {
	k := objKey(obj)
	cur, found := m.items[k]
	v, numeric := parseVersion(obj)
	out := map[string]expect{}
	if !numeric {
		// malformed: invariants only (unchanged or absent)
		if found {
			out[k] = expect{allowed: []metav1.Object{cur.obj}}
		} else {
			out[k] = expect{exact: true}
		}
		return out
	}
	switch typ {
	case kcache.EventTypeDelete:
		if found && v < cur.ver {
			out[k] = expect{allowed: []metav1.Object{cur.obj}} // stale delete: unspecified
		} else {
			out[k] = expect{exact: true}
		}
	default:
		switch {
		case !found:
			if m.accept(obj) {
				out[k] = expect{exact: true, obj: obj}
			} else {
				out[k] = expect{exact: true}
			}
		case v > cur.ver:
			if m.accept(obj) {
				out[k] = expect{exact: true, obj: obj}
			} else {
				out[k] = expect{exact: true}
			}
		default:
			out[k] = expect{exact: true, obj: cur.obj}
		}
	}
	return out
}

// predictSync returns the per-key expectation for sync(list) under the
// model's current predicate (refilter = set predicate, then sync).
func (m *cacheModel) predictSync(list []metav1.Object) map[string]expect {
	byKey := map[string][]metav1.Object{}
	for _, o := range list {
		byKey[objKey(o)] = append(byKey[objKey(o)], o)
	}
	out := map[string]expect{}
	for k := range m.items {
		if _, listed := byKey[k]; !listed {
			out[k] = expect{exact: true} // missing from a synchronised list
		}
	}
	for k, entries := range byKey {
		cur, found := m.items[k]
		relaxed := len(entries) > 1
		for _, e := range entries {
			if _, ok := parseVersion(e); !ok {
				relaxed = true
			}
		}
		if relaxed {
			ex := expect{}
			if found && m.accept(cur.obj) {
				ex.allowed = append(ex.allowed, cur.obj)
			}
			for _, e := range entries {
				// never an entry that is not newer than the cached object
				if v, ok := parseVersion(e); ok && m.accept(e) && (!found || v > cur.ver) {
					ex.allowed = append(ex.allowed, e)
				}
			}
			out[k] = ex
			continue
		}
		e := entries[0]
		v, _ := parseVersion(e)
		switch {
		case !found || v > cur.ver:
			if m.accept(e) {
				out[k] = expect{exact: true, obj: e}
			} else {
				out[k] = expect{exact: true}
			}
		default: // not newer: the cached object stays iff the predicate accepts it
			if m.accept(cur.obj) {
				out[k] = expect{exact: true, obj: cur.obj}
			} else {
				out[k] = expect{exact: true}
			}
		}
	}
	return out
}

// commit checks the real content against the expectation and adopts it as the
// model's new state.  universe lists every key that may occur.
func (m *cacheModel) commit(exp map[string]expect, real map[string]metav1.Object) string {
	for k, ex := range exp {
		got := real[k]
		if ex.exact {
			if got != ex.obj {
				if got != nil && ex.obj != nil && objStr(got) == objStr(ex.obj) {
					return fmt.Sprintf("key %s: cache holds a different object than the reference although both render as %s: a version that is not newer replaced the cached object", k, objStr(got))
				}
				return fmt.Sprintf("key %s: cache holds %s, reference says %s", k, objStr(got), objStr(ex.obj))
			}
		} else if got != nil {
			ok := false
			for _, a := range ex.allowed {
				if a == got {
					ok = true
				}
			}
			if !ok {
				return fmt.Sprintf("key %s: cache holds %s which is none of the allowed outcomes %s (or absent)", k, objStr(got), fmtObjs(ex.allowed))
			}
		}
	}
	for k, got := range real {
		if _, ok := exp[k]; ok {
			continue
		}
		cur, found := m.items[k]
		if !found || cur.obj != got {
			return fmt.Sprintf("key %s: untouched by the operation but cache holds %s, reference %s", k, objStr(got), objStr(cur.obj))
		}
	}
	for k, cur := range m.items {
		if _, ok := exp[k]; ok {
			continue
		}
		if real[k] != cur.obj {
			return fmt.Sprintf("key %s: untouched by the operation but cache holds %s, reference %s", k, objStr(real[k]), objStr(cur.obj))
		}
	}
	// adopt
	next := map[string]mEntry{}
	for k, o := range real {
		v, ok := parseVersion(o)
		if !ok {
			return fmt.Sprintf("key %s: cached object %s has a non-numeric version", k, objStr(o))
		}
		if !m.accept(o) {
			return fmt.Sprintf("key %s: cached object %s does not satisfy the current filter", k, objStr(o))
		}
		next[k] = mEntry{v, o}
	}
	m.items = next
	return ""
}

func fmtObjs(objs []metav1.Object) string {
	s := make([]string, len(objs))
	for i, o := range objs {
		s[i] = objStr(o)
	}
	sort.Strings(s)
	return fmt.Sprint(s)
}

// ---------------------------------------------------------------- event algebra (C02)

type evRec struct {
	Type kcache.EventType
	Obj  metav1.Object
}

func (e evRec) String() string { return string(e.Type) + " " + objStr(e.Obj) }

func recEvents(evs []kcache.Event) []evRec {
	out := make([]evRec, len(evs))
	for i, e := range evs {
		out[i] = evRec{e.Type(), e.Resource()}
	}
	return out
}

// replayStrict applies events in order to content (key -> object) with the
// strict algebra of C02: Create only for an absent key, Update only for a
// present key with a strictly newer version, Delete only for a present key.
// It returns the resulting content or an error description.
func replayStrict(before map[string]metav1.Object, evs []evRec) (map[string]metav1.Object, string) {
	cur := make(map[string]metav1.Object, len(before))
	for k, v := range before {
		cur[k] = v
	}
	for i, e := range evs {
		if e.Obj == nil {
			return nil, fmt.Sprintf("event %d (%s) carries no object", i, e.Type)
		}
		k := objKey(e.Obj)
		old, present := cur[k]
		switch e.Type {
		case kcache.EventTypeCreate:
			if present {
				return nil, fmt.Sprintf("event %d: Create of %s but the key is already present (%s)", i, objStr(e.Obj), objStr(old))
			}
			cur[k] = e.Obj
		case kcache.EventTypeUpdate:
			if !present {
				return nil, fmt.Sprintf("event %d: Update of %s but the key is absent", i, objStr(e.Obj))
			}
			if objVersion(e.Obj) <= objVersion(old) {
				return nil, fmt.Sprintf("event %d: Update to %s is not strictly newer than %s", i, objStr(e.Obj), objStr(old))
			}
			cur[k] = e.Obj
		case kcache.EventTypeDelete:
			if !present {
				return nil, fmt.Sprintf("event %d: Delete of %s but the key is absent", i, objStr(e.Obj))
			}
			delete(cur, k)
		default:
			return nil, fmt.Sprintf("event %d has unknown type %q", i, e.Type)
		}
	}
	return cur, ""
}

// checkDelta is the C02 oracle for one mutation: events replayed over before
// must give after exactly (same objects, by identity); an unchanged content
// must come with no event at all.
func checkDelta(before, after map[string]metav1.Object, evs []evRec) string {
	got, msg := replayStrict(before, evs)
	if msg != "" {
		return msg
	}
	if len(got) != len(after) {
		return fmt.Sprintf("replaying %d events over %s gives %s but the cache holds %s", len(evs), fmtContent(before), fmtContent(got), fmtContent(after))
	}
	for k, o := range after {
		if got[k] != o {
			return fmt.Sprintf("replaying the events gives %s for key %s but the cache holds %s", objStr(got[k]), k, objStr(o))
		}
	}
	same := len(before) == len(after)
	if same {
		for k, o := range before {
			if after[k] != o {
				same = false
			}
		}
	}
	if same && len(evs) != 0 {
		return fmt.Sprintf("content unchanged (%s) but %d events were emitted: %v", fmtContent(before), len(evs), evs)
	}
	return ""
}

func fmtContent(c map[string]metav1.Object) string {
	s := make([]string, 0, len(c))
	for _, o := range c {
		s = append(s, objStr(o))
	}
	sort.Strings(s)
	return fmt.Sprint(s)
}

func contentOf(objs []metav1.Object) (map[string]metav1.Object, string) {
	out := make(map[string]metav1.Object, len(objs))
	for _, o := range objs {
		if o == nil {
			return nil, "List() returned a nil object"
		}
		k := objKey(o)
		if _, dup := out[k]; dup {
			return nil, "List() returned key " + k + " twice"
		}
		out[k] = o
	}
	return out, ""
}
