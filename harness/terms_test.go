//go:build verif

package verifharness

// Filter terms: a harness-side AST of everything the library's filter
// constructors can build, with
//   - build():  the real kcache filter,
//   - eval():   an independent evaluator written from the property statements
//               and the Kubernetes label-selector documentation (it never
//               looks at the built filter and never calls labels.Selector),
//   - String(): a stable rendering used for hashing, samples and replay.

import (
	"fmt"
	"sort"
	"strings"

	"github.com/boz/kcache/filter"
	"github.com/boz/kcache/nsname"
	"github.com/boz/kcache/types/daemonset"
	"github.com/boz/kcache/types/deployment"
	"github.com/boz/kcache/types/event"
	"github.com/boz/kcache/types/ingress"
	"github.com/boz/kcache/types/job"
	"github.com/boz/kcache/types/pod"
	"github.com/boz/kcache/types/replicaset"
	"github.com/boz/kcache/types/replicationcontroller"
	"github.com/boz/kcache/types/service"
	"github.com/boz/kcache/types/statefulset"
	appsv1 "k8s.io/api/apps/v1"
	batchv1 "k8s.io/api/batch/v1"
	corev1 "k8s.io/api/core/v1"
	netv1beta1 "k8s.io/api/networking/v1beta1"
	metav1 "k8s.io/apimachinery/pkg/apis/meta/v1"
	"k8s.io/apimachinery/pkg/labels"
	"k8s.io/apimachinery/pkg/types"
)

type termKind int

const (
	tNull termKind = iota
	tAll
	tNot
	tAnd
	tOr
	tNSName
	tLabels
	tLabelSelector
	tSelEverything
	tSelNothing
	tFN
	tNode
	tInvolved
	tSelectorMatch
	tWorkloadPods // one of the seven PodsFilter
	tIngressServices
)

// selReq is one match expression of a label selector.
type selReq struct {
	Key    string
	Op     string // In, NotIn, Exists, DoesNotExist
	Values []string
}

// selSpec is a *metav1.LabelSelector in harness terms; Nil means a nil pointer.
type selSpec struct {
	Nil         bool
	MatchLabels map[string]string // may be nil
	Exprs       []selReq
}

func (s selSpec) String() string {
	if s.Nil {
		return "nil"
	}
	var parts []string
	if s.MatchLabels != nil {
		parts = append(parts, "ml"+labelsStr(s.MatchLabels))
	}
	for _, r := range s.Exprs {
		parts = append(parts, fmt.Sprintf("%s %s %v", r.Key, r.Op, r.Values))
	}
	return "sel(" + strings.Join(parts, ";") + ")"
}

func (s selSpec) build() *metav1.LabelSelector {
	if s.Nil {
		return nil
	}
	ls := &metav1.LabelSelector{}
	if s.MatchLabels != nil {
		ls.MatchLabels = map[string]string{}
		for k, v := range s.MatchLabels {
			ls.MatchLabels[k] = v
		}
	}
	for _, r := range s.Exprs {
		ls.MatchExpressions = append(ls.MatchExpressions, metav1.LabelSelectorRequirement{
			Key: r.Key, Operator: metav1.LabelSelectorOperator(r.Op), Values: append([]string(nil), r.Values...)})
	}
	return ls
}

// refSelectorMatches: Kubernetes label selector semantics, from the API docs:
// a nil selector selects nothing, an empty selector selects everything,
// matchLabels entries are ANDed equality requirements, In needs the key
// present with a listed value, NotIn matches when the key is absent or its
// value is not listed, Exists / DoesNotExist test key presence.
func refSelectorMatches(s selSpec, l map[string]string) bool {
	if s.Nil {
		return false
	}
	for k, v := range s.MatchLabels {
		got, ok := l[k]
		if !ok || got != v {
			return false
		}
	}
	for _, r := range s.Exprs {
		got, present := l[r.Key]
		in := false
		for _, v := range r.Values {
			if v == got {
				in = true
			}
		}
		switch r.Op {
		case "In":
			if !present || !in {
				return false
			}
		case "NotIn":
			if present && in {
				return false
			}
		case "Exists":
			if !present {
				return false
			}
		case "DoesNotExist":
			if present {
				return false
			}
		default:
			panic("bad op " + r.Op)
		}
	}
	return true
}

// refSetMatches: equality-set semantics (every k=v of the set is carried by the labels).
func refSetMatches(set, l map[string]string) bool {
	for k, v := range set {
		got, ok := l[k]
		if !ok || got != v {
			return false
		}
	}
	return true
}

// workload is a harness-side workload / service / ingress source object.
type workload struct {
	NS, Name string
	// identity metadata the API server maintains: no filter may depend on it (two revisions of one
	// object share the UID, and the generation only moves with spec changes some clients never make)
	UID string
	Gen int64
	// services, replication controllers: Set selector (nil = none)
	SetSel map[string]string
	HasSet bool
	// others: label selector (Nil = absent)
	Sel selSpec
	// template labels (nil = absent); TemplateNil: RC with a nil template pointer
	Template    map[string]string
	TemplateNil bool
	// ingress
	DefaultBackend *string    // nil: no default backend
	Paths          [][]string // per rule: service names of its paths ("" allowed); nil rule = no HTTP block
}

func (w workload) String() string {
	var b strings.Builder
	fmt.Fprintf(&b, "%s/%s", w.NS, w.Name)
	if w.HasSet {
		b.WriteString(" set" + labelsStr(w.SetSel))
	}
	if !w.Sel.Nil {
		b.WriteString(" " + w.Sel.String())
	}
	if w.Template != nil {
		b.WriteString(" tpl" + labelsStr(w.Template))
	}
	if w.TemplateNil {
		b.WriteString(" tpl=nilptr")
	}
	if w.DefaultBackend != nil {
		b.WriteString(" default=" + *w.DefaultBackend)
	}
	if w.Paths != nil {
		b.WriteString(fmt.Sprintf(" paths=%v", w.Paths))
	}
	return b.String()
}

var workloadKinds = []string{"service", "replicationcontroller", "replicaset", "deployment", "daemonset", "statefulset", "job"}

type term struct {
	Kind     termKind
	Children []*term
	IDs      []nsname.NSName   // NSName
	Set      map[string]string // Labels, SelectorMatch (nil allowed)
	Sel      selSpec           // LabelSelector
	FN       int               // index into fnPreds
	Names    []string          // Node
	Inv      [3]string         // Involved: kind, ns, name
	WKind    string            // workload kind
	Sources  []workload
}

// fnPreds: the opaque predicates used for filter.FN terms.  All of them are created by ONE
// function literal (one site, in a loop - an inlined factory would be duplicated per call site)
// with different captured values, the way a caller writes a predicate factory: they share their
// code pointer, so an equality that identifies functions by code pointer would equate them.
var fnPreds = func() []func(metav1.Object) bool {
	var out []func(metav1.Object) bool
	for _, c := range []struct {
		field int
		val   string
	}{{0, "a"}, {1, "1"}, {2, "p"}} { // namespace a; label x=1; any name but p
		c := c
		out = append(out, func(o metav1.Object) bool {
			switch c.field {
			case 0:
				return o.GetNamespace() == c.val
			case 1:
				return o.GetLabels()["x"] == c.val
			}
			return o.GetName() != c.val
		})
	}
	return out
}()

func copySet(m map[string]string) map[string]string {
	if m == nil {
		return nil
	}
	out := make(map[string]string, len(m))
	for k, v := range m {
		out[k] = v
	}
	return out
}

func (t *term) String() string {
	switch t.Kind {
	case tNull:
		return "Null"
	case tAll:
		return "All"
	case tNot:
		return "Not(" + t.Children[0].String() + ")"
	case tAnd, tOr:
		parts := make([]string, len(t.Children))
		for i, c := range t.Children {
			parts[i] = c.String()
		}
		n := "And"
		if t.Kind == tOr {
			n = "Or"
		}
		return n + "(" + strings.Join(parts, ",") + ")"
	case tNSName:
		parts := make([]string, len(t.IDs))
		for i, id := range t.IDs {
			parts[i] = id.String()
		}
		return "NSName(" + strings.Join(parts, ",") + ")"
	case tLabels:
		if t.Set == nil {
			return "Labels(nil)"
		}
		return "Labels" + labelsStr(t.Set)
	case tLabelSelector:
		return "LabelSelector(" + t.Sel.String() + ")"
	case tSelEverything:
		return "Selector(Everything)"
	case tSelNothing:
		return "Selector(Nothing)"
	case tFN:
		return fmt.Sprintf("FN#%d", t.FN)
	case tNode:
		return fmt.Sprintf("Node%v", t.Names)
	case tInvolved:
		return fmt.Sprintf("Involved(%s,%s,%s)", t.Inv[0], t.Inv[1], t.Inv[2])
	case tSelectorMatch:
		if t.Set == nil {
			return "SelectorMatch(nil)"
		}
		return "SelectorMatch" + labelsStr(t.Set)
	case tWorkloadPods, tIngressServices:
		parts := make([]string, len(t.Sources))
		for i, s := range t.Sources {
			parts[i] = s.String()
		}
		n := t.WKind + ".PodsFilter"
		if t.Kind == tIngressServices {
			n = "ingress.ServicesFilter"
		}
		return n + "[" + strings.Join(parts, " | ") + "]"
	}
	return "?"
}

func (t *term) depth() int {
	d := 0
	for _, c := range t.Children {
		if cd := c.depth(); cd > d {
			d = cd
		}
	}
	if len(t.Children) > 0 {
		return d + 1
	}
	return 0
}

func (t *term) hasFN() bool {
	if t.Kind == tFN {
		return true
	}
	for _, c := range t.Children {
		if c.hasFN() {
			return true
		}
	}
	return false
}

func (t *term) anyKind(pred func(*term) bool) bool {
	if pred(t) {
		return true
	}
	for _, c := range t.Children {
		if c.anyKind(pred) {
			return true
		}
	}
	return false
}

// ---------------------------------------------------------------- build

func buildWorkloadMeta(w workload) metav1.ObjectMeta {
	return metav1.ObjectMeta{Namespace: w.NS, Name: w.Name, UID: types.UID(w.UID), Generation: w.Gen}
}

func (w workload) podTemplate() corev1.PodTemplateSpec {
	return corev1.PodTemplateSpec{ObjectMeta: metav1.ObjectMeta{Labels: copySet(w.Template)}}
}

func (w workload) service() *corev1.Service {
	s := &corev1.Service{ObjectMeta: buildWorkloadMeta(w)}
	if w.HasSet {
		s.Spec.Selector = copySet(w.SetSel)
		if s.Spec.Selector == nil {
			s.Spec.Selector = map[string]string{}
		}
	}
	return s
}

func (w workload) rc() *corev1.ReplicationController {
	s := &corev1.ReplicationController{ObjectMeta: buildWorkloadMeta(w)}
	if w.HasSet {
		s.Spec.Selector = copySet(w.SetSel)
		if s.Spec.Selector == nil {
			s.Spec.Selector = map[string]string{}
		}
	}
	if !w.TemplateNil {
		tpl := w.podTemplate()
		s.Spec.Template = &tpl
	}
	return s
}

func (w workload) ingress() *netv1beta1.Ingress {
	ing := &netv1beta1.Ingress{ObjectMeta: buildWorkloadMeta(w)}
	if w.DefaultBackend != nil {
		ing.Spec.Backend = &netv1beta1.IngressBackend{ServiceName: *w.DefaultBackend}
	}
	for _, rule := range w.Paths {
		r := netv1beta1.IngressRule{Host: "h"}
		if rule != nil {
			http := &netv1beta1.HTTPIngressRuleValue{}
			for _, svc := range rule {
				http.Paths = append(http.Paths, netv1beta1.HTTPIngressPath{Path: "/", Backend: netv1beta1.IngressBackend{ServiceName: svc}})
			}
			r.HTTP = http
		}
		ing.Spec.Rules = append(ing.Spec.Rules, r)
	}
	return ing
}

// workloadObject builds the typed API object of a harness-side workload.
func workloadObject(kind string, w workload) kobj {
	switch kind {
	case "service":
		return w.service()
	case "replicationcontroller":
		return w.rc()
	case "replicaset":
		return &appsv1.ReplicaSet{ObjectMeta: buildWorkloadMeta(w), Spec: appsv1.ReplicaSetSpec{Selector: w.Sel.build(), Template: w.podTemplate()}}
	case "deployment":
		return &appsv1.Deployment{ObjectMeta: buildWorkloadMeta(w), Spec: appsv1.DeploymentSpec{Selector: w.Sel.build(), Template: w.podTemplate()}}
	case "daemonset":
		return &appsv1.DaemonSet{ObjectMeta: buildWorkloadMeta(w), Spec: appsv1.DaemonSetSpec{Selector: w.Sel.build(), Template: w.podTemplate()}}
	case "statefulset":
		return &appsv1.StatefulSet{ObjectMeta: buildWorkloadMeta(w), Spec: appsv1.StatefulSetSpec{Selector: w.Sel.build(), Template: w.podTemplate()}}
	case "job":
		return &batchv1.Job{ObjectMeta: buildWorkloadMeta(w), Spec: batchv1.JobSpec{Selector: w.Sel.build(), Template: w.podTemplate()}}
	case "ingress":
		return w.ingress()
	}
	panic("unknown workload kind " + kind)
}

func buildWorkloadFilter(kind string, ws []workload) filter.ComparableFilter {
	return workloadCtor(kind, ws)()
}

// workloadCtor builds the source objects once and returns the constructor call over them: calling it
// twice hands the very same objects (and the same slice) to the library twice.
func workloadCtor(kind string, ws []workload) func() filter.ComparableFilter {
	switch kind {
	case "service":
		var xs []*corev1.Service
		for _, w := range ws {
			xs = append(xs, w.service())
		}
		return func() filter.ComparableFilter { return service.PodsFilter(xs...) }
	case "replicationcontroller":
		var xs []*corev1.ReplicationController
		for _, w := range ws {
			xs = append(xs, w.rc())
		}
		return func() filter.ComparableFilter { return replicationcontroller.PodsFilter(xs...) }
	case "replicaset":
		var xs []*appsv1.ReplicaSet
		for _, w := range ws {
			xs = append(xs, &appsv1.ReplicaSet{ObjectMeta: buildWorkloadMeta(w), Spec: appsv1.ReplicaSetSpec{Selector: w.Sel.build(), Template: w.podTemplate()}})
		}
		return func() filter.ComparableFilter { return replicaset.PodsFilter(xs...) }
	case "deployment":
		var xs []*appsv1.Deployment
		for _, w := range ws {
			xs = append(xs, &appsv1.Deployment{ObjectMeta: buildWorkloadMeta(w), Spec: appsv1.DeploymentSpec{Selector: w.Sel.build(), Template: w.podTemplate()}})
		}
		return func() filter.ComparableFilter { return deployment.PodsFilter(xs...) }
	case "daemonset":
		var xs []*appsv1.DaemonSet
		for _, w := range ws {
			xs = append(xs, &appsv1.DaemonSet{ObjectMeta: buildWorkloadMeta(w), Spec: appsv1.DaemonSetSpec{Selector: w.Sel.build(), Template: w.podTemplate()}})
		}
		return func() filter.ComparableFilter { return daemonset.PodsFilter(xs...) }
	case "statefulset":
		var xs []*appsv1.StatefulSet
		for _, w := range ws {
			xs = append(xs, &appsv1.StatefulSet{ObjectMeta: buildWorkloadMeta(w), Spec: appsv1.StatefulSetSpec{Selector: w.Sel.build(), Template: w.podTemplate()}})
		}
		return func() filter.ComparableFilter { return statefulset.PodsFilter(xs...) }
	case "job":
		var xs []*batchv1.Job
		for _, w := range ws {
			xs = append(xs, &batchv1.Job{ObjectMeta: buildWorkloadMeta(w), Spec: batchv1.JobSpec{Selector: w.Sel.build(), Template: w.podTemplate()}})
		}
		return func() filter.ComparableFilter { return job.PodsFilter(xs...) }
	}
	panic("unknown workload kind " + kind)
}

func (t *term) build() filter.Filter {
	switch t.Kind {
	case tNull:
		return filter.Null()
	case tAll:
		return filter.All()
	case tNot:
		return filter.Not(t.Children[0].build())
	case tAnd, tOr:
		cs := make([]filter.Filter, len(t.Children))
		for i, c := range t.Children {
			cs[i] = c.build()
		}
		if t.Kind == tAnd {
			return filter.And(cs...)
		}
		return filter.Or(cs...)
	case tNSName:
		return filter.NSName(append([]nsname.NSName(nil), t.IDs...)...)
	case tLabels:
		return filter.Labels(copySet(t.Set))
	case tLabelSelector:
		return filter.LabelSelector(t.Sel.build())
	case tSelEverything:
		return filter.Selector(labels.Everything())
	case tSelNothing:
		return filter.Selector(labels.Nothing())
	case tFN:
		return filter.FN(fnPreds[t.FN])
	case tNode:
		return pod.NodeFilter(append([]string(nil), t.Names...)...)
	case tInvolved:
		return event.InvolvedFilter(t.Inv[0], t.Inv[1], t.Inv[2])
	case tSelectorMatch:
		return service.SelectorMatchFilter(copySet(t.Set))
	case tWorkloadPods:
		return buildWorkloadFilter(t.WKind, t.Sources)
	case tIngressServices:
		var xs []*netv1beta1.Ingress
		for _, w := range t.Sources {
			xs = append(xs, w.ingress())
		}
		return ingress.ServicesFilter(xs...)
	}
	panic("unknown term")
}

// buildTwice constructs the term's filter twice from the SAME argument values - one id slice, one
// label map, one selector object, one slice of source objects handed to the constructor twice - and
// the second tree consists of the second-built leaves only.  A constructor that consumes, reorders
// or keeps a mutable hold on what its caller passes in makes the two differ from each other or
// from the reference.
func (t *term) buildTwice() (filter.Filter, filter.Filter) {
	switch t.Kind {
	case tNot:
		a, b := t.Children[0].buildTwice()
		return filter.Not(a), filter.Not(b)
	case tAnd, tOr:
		as, bs := make([]filter.Filter, len(t.Children)), make([]filter.Filter, len(t.Children))
		for i, c := range t.Children {
			as[i], bs[i] = c.buildTwice()
		}
		if t.Kind == tAnd {
			return filter.And(as...), filter.And(bs...)
		}
		return filter.Or(as...), filter.Or(bs...)
	case tNSName:
		ids := append([]nsname.NSName(nil), t.IDs...)
		return filter.NSName(ids...), filter.NSName(ids...)
	case tLabels:
		m := copySet(t.Set)
		return filter.Labels(m), filter.Labels(m)
	case tLabelSelector:
		ls := t.Sel.build()
		return filter.LabelSelector(ls), filter.LabelSelector(ls)
	case tNode:
		names := append([]string(nil), t.Names...)
		return pod.NodeFilter(names...), pod.NodeFilter(names...)
	case tSelectorMatch:
		m := copySet(t.Set)
		return service.SelectorMatchFilter(m), service.SelectorMatchFilter(m)
	case tWorkloadPods:
		mk := workloadCtor(t.WKind, t.Sources)
		return mk(), mk()
	case tIngressServices:
		var xs []*netv1beta1.Ingress
		for _, w := range t.Sources {
			xs = append(xs, w.ingress())
		}
		return ingress.ServicesFilter(xs...), ingress.ServicesFilter(xs...)
	}
	return t.build(), t.build()
}

// ---------------------------------------------------------------- reference evaluation

// refWorkloadSelects: "pod p is selected by workload w" — same namespace and
// the workload's selector, or lacking one its template labels, matches the
// pod's labels; a service without selector selects nothing.
func refWorkloadSelects(kind string, w workload, ns string, l map[string]string, scopeNS bool) bool {
	if scopeNS && w.NS != ns {
		return false
	}
	switch kind {
	case "service":
		if !w.HasSet || len(w.SetSel) == 0 {
			return false
		}
		return refSetMatches(w.SetSel, l)
	case "replicationcontroller":
		if w.HasSet && len(w.SetSel) > 0 {
			return refSetMatches(w.SetSel, l)
		}
		return refSetMatches(w.Template, l)
	default:
		if !w.Sel.Nil {
			return refSelectorMatches(w.Sel, l)
		}
		return refSetMatches(w.Template, l)
	}
}

func (w workload) backends() map[string]bool {
	out := map[string]bool{}
	if w.DefaultBackend != nil && *w.DefaultBackend != "" {
		out[*w.DefaultBackend] = true
	}
	for _, rule := range w.Paths {
		for _, svc := range rule {
			if svc != "" {
				out[svc] = true
			}
		}
	}
	return out
}

// eval is the reference semantics of a term for object o.
func (t *term) eval(o metav1.Object) bool {
	switch t.Kind {
	case tNull:
		return true
	case tAll:
		return false
	case tNot:
		return !t.Children[0].eval(o)
	case tAnd:
		for _, c := range t.Children {
			if !c.eval(o) {
				return false
			}
		}
		return true
	case tOr:
		for _, c := range t.Children {
			if c.eval(o) {
				return true
			}
		}
		return false
	case tNSName:
		for _, id := range t.IDs {
			nsOK := id.Namespace == "" || id.Namespace == o.GetNamespace()
			nameOK := id.Name == "" || id.Name == o.GetName()
			if nsOK && nameOK {
				return true
			}
		}
		return false
	case tLabels:
		return refSetMatches(t.Set, o.GetLabels())
	case tLabelSelector:
		return refSelectorMatches(t.Sel, o.GetLabels())
	case tSelEverything:
		return true
	case tSelNothing:
		return false
	case tFN:
		return fnPreds[t.FN](o)
	case tNode:
		p, ok := o.(*corev1.Pod)
		if !ok {
			return false
		}
		for _, n := range t.Names {
			if n == p.Spec.NodeName {
				return true
			}
		}
		return false
	case tInvolved:
		e, ok := o.(*corev1.Event)
		if !ok {
			return false
		}
		return e.InvolvedObject.Kind == t.Inv[0] && e.InvolvedObject.Namespace == t.Inv[1] && e.InvolvedObject.Name == t.Inv[2]
	case tSelectorMatch:
		s, ok := o.(*corev1.Service)
		if !ok {
			return false
		}
		if len(s.Spec.Selector) == 0 || len(t.Set) == 0 {
			return false
		}
		return refSetMatches(s.Spec.Selector, t.Set)
	case tWorkloadPods:
		for _, w := range t.Sources {
			if refWorkloadSelects(t.WKind, w, o.GetNamespace(), o.GetLabels(), true) {
				return true
			}
		}
		return false
	case tIngressServices:
		for _, w := range t.Sources {
			if w.NS == o.GetNamespace() && w.backends()[o.GetName()] {
				return true
			}
		}
		return false
	}
	panic("unknown term")
}

// ---------------------------------------------------------------- universes

var (
	uniNamespaces = []string{"a", "b", "c"}
	uniNames      = []string{"p", "q", "r"}
	uniKeys       = []string{"x", "y"}
	uniValues     = []string{"1", "2", ""} // the empty string is a legal label value, distinct from an absent key
)

// allLabelMaps: every label map over uniKeys with values from uniValues or absent.
func allLabelMaps(keys, values []string) []map[string]string {
	out := []map[string]string{nil}
	for _, k := range keys {
		var next []map[string]string
		for _, m := range out {
			next = append(next, m)
			for _, v := range values {
				c := map[string]string{}
				for kk, vv := range m {
					c[kk] = vv
				}
				c[k] = v
				next = append(next, c)
			}
		}
		out = next
	}
	return out
}

// objectUniverse: pods over ns x name x label maps; optionally with the typed
// extras used by the typed filters (pods with node names, services with
// selectors, events with involved objects, one foreign kind).
func objectUniverse(namespaces, names []string, lms []map[string]string, typed bool) []metav1.Object {
	var out []metav1.Object
	for _, ns := range namespaces {
		for _, n := range names {
			for _, l := range lms {
				out = append(out, mkPod(ns, n, "1", copySet(l)))
			}
		}
	}
	if typed {
		for _, node := range []string{"", "n1", "n2"} {
			p := mkPod("a", "p", "1", map[string]string{"x": "1"})
			p.Spec.NodeName = node
			out = append(out, p)
		}
		for _, ns := range namespaces[:2] {
			for _, n := range names {
				for _, sel := range lms {
					out = append(out, &corev1.Service{ObjectMeta: metav1.ObjectMeta{Namespace: ns, Name: n, ResourceVersion: "1"}, Spec: corev1.ServiceSpec{Selector: copySet(sel)}})
				}
			}
		}
		// events about namespaced objects, about cluster-scoped ones (no namespace: nodes) and with an
		// empty name: an involved-object filter matches the reference field by field, an empty field is
		// not a wildcard
		for _, k := range []string{"Pod", "Service", "", "Node"} {
			for _, ns := range append(append([]string(nil), namespaces[:2]...), "") {
				for _, n := range append(append([]string(nil), names[:2]...), "") {
					evns := ns
					if evns == "" {
						evns = "default"
					}
					out = append(out, &corev1.Event{ObjectMeta: metav1.ObjectMeta{Namespace: evns, Name: "ev", ResourceVersion: "1"},
						InvolvedObject: corev1.ObjectReference{Kind: k, Namespace: ns, Name: n}})
				}
			}
		}
		out = append(out, &corev1.Secret{ObjectMeta: metav1.ObjectMeta{Namespace: "a", Name: "p", ResourceVersion: "1", Labels: map[string]string{"x": "1"}}})
		out = append(out, &corev1.Node{ObjectMeta: metav1.ObjectMeta{Name: "n1", ResourceVersion: "1"}})
	}
	return out
}

func describeObj(o metav1.Object) string {
	switch v := o.(type) {
	case *corev1.Pod:
		s := "pod " + objStr(o)
		if v.Spec.NodeName != "" {
			s += " node=" + v.Spec.NodeName
		}
		return s
	case *corev1.Service:
		return "service " + objStr(o) + " selector=" + labelsStr(v.Spec.Selector)
	case *corev1.Event:
		return fmt.Sprintf("event %s involved=%s/%s/%s", objStr(o), v.InvolvedObject.Kind, v.InvolvedObject.Namespace, v.InvolvedObject.Name)
	}
	return fmt.Sprintf("%T %s", o, objStr(o))
}

func sortedKeys(m map[string]string) []string {
	ks := make([]string, 0, len(m))
	for k := range m {
		ks = append(ks, k)
	}
	sort.Strings(ks)
	return ks
}
