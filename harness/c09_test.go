//go:build verif

package verifharness

// C09 — joins select exactly the destination objects matched by current
// source objects.
//
// For each of the eight generated joins and IngressPods: a fake API server
// per side, typed base controllers, the join under test; rapid-generated
// source and destination histories with generated relative timing; repeated
// create/close cycles of joins over the long-lived bases.
//
// Barriers.  Destination side: a marker object in namespace zz selected by a
// permanent marker source, updated per barrier (double marker).  Source side:
// a fresh probe object is created on the destination side, then a fresh
// marker source selecting exactly that probe; when the join emits the
// probe's Create every earlier source event has been turned into a Refilter
// (monitor callbacks are serial and Refilter hands over synchronously).
//
// Oracle at barriers: join cache == {d in dst | exists s in src: selects(s,d)}
// with the reference ownership predicates of C19 (composition through
// services for IngressPods); the strict mirror of the join's events == its
// cache; the join is Ready only after both bases are ready; after Close() of
// the result: Done, the count of library-created goroutines is back at the
// pre-join baseline, and both bases still deliver events.

import (
	"context"
	"fmt"
	"strings"
	"testing"
	"time"

	logutil "github.com/boz/go-logutil"
	"github.com/boz/kcache"
	"github.com/boz/kcache/join"
	tdaemonset "github.com/boz/kcache/types/daemonset"
	tdeployment "github.com/boz/kcache/types/deployment"
	tingress "github.com/boz/kcache/types/ingress"
	tjob "github.com/boz/kcache/types/job"
	tpod "github.com/boz/kcache/types/pod"
	treplicaset "github.com/boz/kcache/types/replicaset"
	trc "github.com/boz/kcache/types/replicationcontroller"
	tservice "github.com/boz/kcache/types/service"
	tstatefulset "github.com/boz/kcache/types/statefulset"
	corev1 "k8s.io/api/core/v1"
	metav1 "k8s.io/apimachinery/pkg/apis/meta/v1"
	"pgregory.net/rapid"
)

type joinSpec struct {
	name    string
	srcKind string
	dstType string // pod or service
	double  bool
}

var joinSpecs = []joinSpec{
	{"ServicePods", "service", "pod", false},
	{"RCPods", "replicationcontroller", "pod", false},
	{"RSPods", "replicaset", "pod", false},
	{"DeploymentPods", "deployment", "pod", false},
	{"DaemonSetPods", "daemonset", "pod", false},
	{"StatefulSetPods", "statefulset", "pod", false},
	{"JobPods", "job", "pod", false},
	{"IngressServices", "ingress", "service", false},
	{"IngressPods", "ingress", "pod", true},
}

type joinEnv struct {
	t    *rapid.T
	spec joinSpec
	hist []string

	src, dst, mid *fakeAPI
	srcState      map[string]workload // sources (marker namespace excluded)
	midState      map[string]workload // services of the double join

	ctx    context.Context
	cancel context.CancelFunc
	plog   *plog

	mkJoin     func(ctx context.Context) (kcache.Controller, error)
	jcancel    context.CancelFunc  // the join's own context (it only carries the logger)
	bases      []kcache.Controller // adapters over the long-lived typed base controllers
	closeBases func()

	jc           kcache.Controller
	ctxCancelled bool
	j            *node
	probeN       int
}

func (e *joinEnv) h(format string, args ...interface{}) {
	e.hist = append(e.hist, fmt.Sprintf(format, args...))
	traceOp(format, args...)
}

func (e *joinEnv) fail(format string, args ...interface{}) {
	e.t.Fatalf("C09 violation [%s]: %s\nHISTORY:\n  %s", e.spec.name, fmt.Sprintf(format, args...), strings.Join(e.hist, "\n  "))
}

func (e *joinEnv) wait(ch <-chan struct{}, what string) {
	if !waitWedge(ch) {
		_, dump := libGoroutines()
		if len(dump) > 5000 {
			dump = dump[:5000]
		}
		e.fail("WEDGE: %s did not happen within the bound\n%s", what, dump)
	}
}

// newJoinEnv builds the fake servers and typed base controllers; gate[i]
// gates the first list of base i (0 = source, 1 = destination, 2 = middle).
func newJoinEnv(t *rapid.T, spec joinSpec, perturb bool, seed uint64, gateSrc, gateDst bool) *joinEnv {
	e := &joinEnv{t: t, spec: spec, src: newFakeAPI(), dst: newFakeAPI(), srcState: map[string]workload{}, midState: map[string]workload{}, plog: newPlog(perturb, seed)}
	e.ctx, e.cancel = context.WithCancel(logutil.NewContext(context.Background(), e.plog))
	e.src.gated = gateSrc
	e.dst.gated = gateDst
	ctx, log := e.ctx, e.plog
	must := func(err error) {
		if err != nil {
			t.Fatalf("harness: building base controllers: %v", err)
		}
	}
	pods := func() tpod.Controller { c, err := tpod.BuildController(ctx, log, e.dst); must(err); return c }
	switch spec.name {
	case "ServicePods":
		s, err := tservice.BuildController(ctx, log, e.src)
		must(err)
		d := pods()
		e.bases = []kcache.Controller{serviceCtl{s}, podCtl{d}}
		e.mkJoin = func(ctx context.Context) (kcache.Controller, error) {
			j, err := join.ServicePods(ctx, s, d)
			if err != nil {
				return nil, err
			}
			return podCtl{j}, nil
		}
	case "RCPods":
		s, err := trc.BuildController(ctx, log, e.src)
		must(err)
		d := pods()
		e.bases = []kcache.Controller{replicationcontrollerCtl{s}, podCtl{d}}
		e.mkJoin = func(ctx context.Context) (kcache.Controller, error) {
			j, err := join.RCPods(ctx, s, d)
			if err != nil {
				return nil, err
			}
			return podCtl{j}, nil
		}
	case "RSPods":
		s, err := treplicaset.BuildController(ctx, log, e.src)
		must(err)
		d := pods()
		e.bases = []kcache.Controller{replicasetCtl{s}, podCtl{d}}
		e.mkJoin = func(ctx context.Context) (kcache.Controller, error) {
			j, err := join.RSPods(ctx, s, d)
			if err != nil {
				return nil, err
			}
			return podCtl{j}, nil
		}
	case "DeploymentPods":
		s, err := tdeployment.BuildController(ctx, log, e.src)
		must(err)
		d := pods()
		e.bases = []kcache.Controller{deploymentCtl{s}, podCtl{d}}
		e.mkJoin = func(ctx context.Context) (kcache.Controller, error) {
			j, err := join.DeploymentPods(ctx, s, d)
			if err != nil {
				return nil, err
			}
			return podCtl{j}, nil
		}
	case "DaemonSetPods":
		s, err := tdaemonset.BuildController(ctx, log, e.src)
		must(err)
		d := pods()
		e.bases = []kcache.Controller{daemonsetCtl{s}, podCtl{d}}
		e.mkJoin = func(ctx context.Context) (kcache.Controller, error) {
			j, err := join.DaemonSetPods(ctx, s, d)
			if err != nil {
				return nil, err
			}
			return podCtl{j}, nil
		}
	case "StatefulSetPods":
		s, err := tstatefulset.BuildController(ctx, log, e.src)
		must(err)
		d := pods()
		e.bases = []kcache.Controller{statefulsetCtl{s}, podCtl{d}}
		e.mkJoin = func(ctx context.Context) (kcache.Controller, error) {
			j, err := join.StatefulSetPods(ctx, s, d)
			if err != nil {
				return nil, err
			}
			return podCtl{j}, nil
		}
	case "JobPods":
		s, err := tjob.BuildController(ctx, log, e.src)
		must(err)
		d := pods()
		e.bases = []kcache.Controller{jobCtl{s}, podCtl{d}}
		e.mkJoin = func(ctx context.Context) (kcache.Controller, error) {
			j, err := join.JobPods(ctx, s, d)
			if err != nil {
				return nil, err
			}
			return podCtl{j}, nil
		}
	case "IngressServices":
		s, err := tingress.BuildController(ctx, log, e.src)
		must(err)
		d, err := tservice.BuildController(ctx, log, e.dst)
		must(err)
		e.bases = []kcache.Controller{ingressCtl{s}, serviceCtl{d}}
		e.mkJoin = func(ctx context.Context) (kcache.Controller, error) {
			j, err := join.IngressServices(ctx, s, d)
			if err != nil {
				return nil, err
			}
			return serviceCtl{j}, nil
		}
	case "IngressPods":
		e.mid = newFakeAPI()
		s, err := tingress.BuildController(ctx, log, e.src)
		must(err)
		m, err := tservice.BuildController(ctx, log, e.mid)
		must(err)
		d := pods()
		e.bases = []kcache.Controller{ingressCtl{s}, podCtl{d}, serviceCtl{m}}
		e.mkJoin = func(ctx context.Context) (kcache.Controller, error) {
			j, err := join.IngressPods(ctx, s, m, d)
			if err != nil {
				return nil, err
			}
			return podCtl{j}, nil
		}
	}
	e.closeBases = func() {
		for _, b := range e.bases {
			go b.Close()
		}
	}
	e.h("join %s: bases created (first list gated: src=%v dst=%v)", spec.name, gateSrc, gateDst)
	return e
}

// ---------------------------------------------------------------- markers

func (e *joinEnv) markerSourceWorkload(name string, label, value string) (string, workload) {
	// a source in namespace zz that selects destination objects labelled label=value
	// (ingress sources select a service by name: value)
	w := workload{NS: markerNS, Name: name, Sel: selSpec{Nil: true}}
	switch e.spec.srcKind {
	case "service", "replicationcontroller":
		w.HasSet = true
		w.SetSel = map[string]string{label: value}
	case "ingress":
		v := value
		w.DefaultBackend = &v
	default:
		w.Sel = selSpec{MatchLabels: map[string]string{label: value}}
	}
	return e.spec.srcKind, w
}

func (e *joinEnv) dstObject(ns, name string, labels map[string]string) kobj {
	if e.spec.dstType == "service" {
		return &corev1.Service{ObjectMeta: metav1.ObjectMeta{Namespace: ns, Name: name, Labels: labels}}
	}
	return mkPod(ns, name, "", labels)
}

// installPermanentMarkers creates the marker source(s) that select zz/marker.
func (e *joinEnv) installPermanentMarkers() {
	if e.spec.double {
		// ingress zz/ming -> service zz/msvc -> pod zz/marker
		v := "msvc"
		e.src.putObj(workload{NS: markerNS, Name: "ming", Sel: selSpec{Nil: true}, DefaultBackend: &v}.ingress())
		e.mid.putObj(workload{NS: markerNS, Name: "msvc", Sel: selSpec{Nil: true}, HasSet: true, SetSel: map[string]string{"marker": "1"}}.service())
		return
	}
	if e.spec.srcKind == "ingress" {
		v := "marker"
		e.src.putObj(workload{NS: markerNS, Name: "ming", Sel: selSpec{Nil: true}, DefaultBackend: &v}.ingress())
		return
	}
	kind, w := e.markerSourceWorkload("msrc", "marker", "1")
	e.src.putObj(workloadObject(kind, w))
}

func (e *joinEnv) dstBarrier1() {
	rv := e.dst.putObj(e.dstObject(markerNS, "marker", map[string]string{"marker": "1"}))
	if !e.j.waitMark(rv) {
		_, dump := libGoroutines()
		if len(dump) > 5000 {
			dump = dump[:5000]
		}
		e.fail("WEDGE: the destination-side marker (rv %d) never came out of the join\n%s", rv, dump)
	}
}

func (e *joinEnv) dstBarrier() { e.dstBarrier1(); e.dstBarrier1() }

// srcBarrier: every earlier source event has been turned into a Refilter.
func (e *joinEnv) srcBarrier() {
	e.probeN++
	probe := fmt.Sprintf("probe%d", e.probeN)
	val := fmt.Sprint(e.probeN)
	e.dst.putObj(e.dstObject(markerNS, probe, map[string]string{"probe": val}))
	e.dstBarrier()
	if e.spec.double {
		e.mid.putObj(workload{NS: markerNS, Name: "ps" + val, Sel: selSpec{Nil: true}, HasSet: true, SetSel: map[string]string{"probe": val}}.service())
		b := "ps" + val
		e.src.putObj(workload{NS: markerNS, Name: "pi" + val, Sel: selSpec{Nil: true}, DefaultBackend: &b}.ingress())
	} else if e.spec.srcKind == "ingress" {
		b := probe
		e.src.putObj(workload{NS: markerNS, Name: "pi" + val, Sel: selSpec{Nil: true}, DefaultBackend: &b}.ingress())
	} else {
		kind, w := e.markerSourceWorkload("ps"+val, "probe", val)
		e.src.putObj(workloadObject(kind, w))
	}
	deadline := time.Now().Add(wedgeBound + wedgeConfirm)
	if isWedgeSeen() {
		deadline = time.Now().Add(wedgeAfter)
	}
	for {
		e.j.mu.Lock()
		seen := e.j.zzSeen[probe]
		e.j.mu.Unlock()
		if seen {
			break
		}
		if time.Now().After(deadline) {
			setWedgeSeen()
			_, dump := libGoroutines()
			if len(dump) > 5000 {
				dump = dump[:5000]
			}
			e.fail("WEDGE: a fresh source selecting %s/%s was added but the join never emitted that object: source changes are not turned into refilters\n%s", markerNS, probe, dump)
		}
		select {
		case <-e.j.note:
		case <-time.After(time.Millisecond):
		}
	}
	e.dstBarrier()
}

// ---------------------------------------------------------------- reference

func (e *joinEnv) selected(d metav1.Object) bool {
	if e.spec.double {
		for _, svc := range e.midState {
			named := false
			for _, ing := range e.srcState {
				if ing.NS == svc.NS && ing.backends()[svc.Name] {
					named = true
				}
			}
			if named && refWorkloadSelects("service", svc, d.GetNamespace(), d.GetLabels(), true) {
				return true
			}
		}
		return false
	}
	for _, s := range e.srcState {
		if e.spec.srcKind == "ingress" {
			if s.NS == d.GetNamespace() && s.backends()[d.GetName()] {
				return true
			}
			continue
		}
		if refWorkloadSelects(e.spec.srcKind, s, d.GetNamespace(), d.GetLabels(), true) {
			return true
		}
	}
	return false
}

func (e *joinEnv) expected() []string {
	var out []string
	for _, d := range e.dst.state() {
		if e.selected(d) {
			out = append(out, objKey(d)+"@"+d.GetResourceVersion())
		}
	}
	sortStrings(out)
	return out
}

// ---------------------------------------------------------------- join lifecycle

func (e *joinEnv) createJoin() {
	// every join gets a context of its own: by contract it only carries the logger, so cancelling it
	// must neither stop the join nor disable anything the join needs in order to stop later
	jctx, jcancel := context.WithCancel(logutil.NewContext(context.Background(), e.plog))
	e.jcancel = jcancel
	jc, err := e.mkJoin(jctx)
	if err != nil {
		e.fail("creating the join over live bases failed: %v", err)
	}
	e.jc = jc
	leaf, err := jc.Subscribe()
	if err != nil {
		e.fail("Subscribe() on the join result failed: %v", err)
	}
	e.j = &node{kind: "join", ctl: jc, leaf: leaf, note: make(chan struct{}, 1), eof: make(chan struct{})}
	go e.j.pump()
	e.h("join created")
}

func (e *joinEnv) check(what string) {
	// 1. "once both sides quiesce": the destination path is flushed with markers; the
	// source path must converge on its own, without any further source event (the probe
	// source of the source-side barrier below would itself trigger a fresh Refilter and
	// could mask a missed one).
	e.dstBarrier()
	want := e.expected()
	deadline := time.Now().Add(wedgeBoundNow())
	for {
		got, err := e.jc.Cache().List()
		if err != nil {
			e.fail("%s: Cache().List() of the join failed: %v", what, err)
		}
		gk := keyVersions(got)
		if sameStrings(gk, want) {
			break
		}
		if time.Now().After(deadline) {
			setWedgeSeen()
			e.fail("%s: both sides are quiet but the join cache %v does not converge to the reference selection over the two servers %v (sources: %s)", what, gk, want, e.renderSources())
		}
		time.Sleep(100 * time.Microsecond)
	}
	// 2. flush every pending Refilter and event, then the exact comparisons
	e.srcBarrier()
	got, err := e.jc.Cache().List()
	if err != nil {
		e.fail("%s: Cache().List() of the join failed: %v", what, err)
	}
	gk := keyVersions(got)
	if !sameStrings(gk, want) {
		// The source-side barrier is exact unless an ordinary source already selected the probe object
		// (a select-everything replication controller does, across namespaces: the recorded C19 finding).
		// The property speaks of the quiescent state: allow the pending refilters to land before judging.
		deadline := time.Now().Add(wedgeBoundNow())
		for !sameStrings(gk, want) && time.Now().Before(deadline) {
			time.Sleep(200 * time.Microsecond)
			got, err = e.jc.Cache().List()
			if err != nil {
				e.fail("%s: Cache().List() of the join failed: %v", what, err)
			}
			gk = keyVersions(got)
		}
		if sameStrings(gk, want) {
			statLabel("C09", "checks_that_converged_after_the_probe_barrier", 1)
			e.dstBarrier()
		}
	}
	if !sameStrings(gk, want) {
		setWedgeSeen()
		e.fail("%s: join cache %v, reference selection over the two servers %v (sources: %s)", what, gk, want, e.renderSources())
	}
	_, mirror, merr, early, _ := e.j.snapshotObs()
	if early != "" {
		e.fail("%s: %s", what, early)
	}
	if merr != "" {
		e.fail("%s: the join's event stream is not a well-formed delta of its cache: %s", what, merr)
	}
	if !e.j.baseline {
		e.j.mu.Lock()
		e.j.mirror = map[string]metav1.Object{}
		for _, o := range got {
			if o.GetNamespace() != markerNS {
				e.j.mirror[objKey(o)] = o
			}
		}
		e.j.mirrorOn = true
		e.j.mu.Unlock()
		e.j.baseline = true
	} else if !sameStrings(mirror, gk) {
		e.fail("%s: a consumer replaying the join's Events() holds %v but the join cache holds %v", what, mirror, gk)
	}
}

func (e *joinEnv) renderSources() string {
	var s []string
	for _, w := range e.srcState {
		s = append(s, w.String())
	}
	sortStrings(s)
	out := strings.Join(s, " | ")
	if e.spec.double {
		var m []string
		for _, w := range e.midState {
			m = append(m, w.String())
		}
		sortStrings(m)
		out += " ; services: " + strings.Join(m, " | ")
	}
	return out
}

// closeJoin closes the join result and checks that everything it created stops
// and that the bases keep running.
func (e *joinEnv) closeJoin(baseline int) {
	if e.jcancel != nil && rapid.Bool().Draw(e.t, "cancelJoinContextFirst") {
		e.jcancel()
		e.h("the join's own context cancelled")
		e.ctxCancelled = true
	}
	e.h("join closed")
	if !closeBounded(e.jc) {
		e.fail("WEDGE: Close() of the join result did not return")
	}
	e.wait(e.jc.Done(), "Done() of the join result after Close()")
	e.wait(e.j.eof, "Events() of a subscriber of the join being closed after Close()")
	if c, dump := waitLibGoroutinesAtMost(baseline, wedgeBoundNow()); c > baseline {
		if len(dump) > 6000 {
			dump = dump[:6000]
		}
		e.fail("after closing the join result %d goroutines created by the library are running, %d more than before the join existed: the join did not stop everything it created\n%s", c, c-baseline, dump)
	}
	// the bases are still running and still deliver events
	for i, b := range e.bases {
		if isClosedCh(b.Done()) {
			e.fail("closing the join result shut down base controller %d", i)
		}
	}
	apis := []*fakeAPI{e.src, e.dst, e.mid}
	for i, b := range e.bases {
		sub, err := b.Subscribe()
		if err != nil {
			e.fail("Subscribe() on base controller %d failed after a join was closed: %v", i, err)
		}
		var obj kobj
		switch {
		case i == 0:
			_, w := e.markerSourceWorkload("alive", "alive", "1")
			if e.spec.double || e.spec.srcKind == "ingress" {
				v := "alive"
				w = workload{NS: markerNS, Name: "alive", Sel: selSpec{Nil: true}, DefaultBackend: &v}
			}
			obj = workloadObject(e.spec.srcKind, w)
		case i == 1:
			obj = e.dstObject(markerNS, "alive", nil)
		default:
			obj = workload{NS: markerNS, Name: "alive", Sel: selSpec{Nil: true}}.service()
		}
		apis[i].putObj(obj)
		select {
		case ev, ok := <-sub.Events():
			if !ok {
				e.fail("base controller %d: a fresh subscription was closed right away after a join was closed", i)
			}
			_ = ev
		case <-time.After(wedgeBoundNow()):
			e.fail("WEDGE: base controller %d no longer delivers events after a join was closed", i)
		}
		sub.Close()
		e.wait(sub.Done(), "Done() of a probe subscription on a base controller")
	}
}

func wedgeBoundNow() time.Duration {
	if isWedgeSeen() {
		return wedgeAfter
	}
	return wedgeBound
}

// ---------------------------------------------------------------- generators

func genJoinSource(t *rapid.T, kind string) workload {
	w := workload{NS: rapid.SampledFrom([]string{"a", "b"}).Draw(t, "sns"), Name: rapid.SampledFrom([]string{"s1", "s2", "s3"}).Draw(t, "sname"), Sel: selSpec{Nil: true}}
	if kind == "replicationcontroller" {
		// the recorded C19 finding (no namespace scoping) is excluded by construction: one namespace only
		w.NS = "a"
	}
	switch kind {
	case "service", "replicationcontroller":
		if rapid.IntRange(0, 5).Draw(t, "hassel") > 0 {
			w.HasSet = true
			w.SetSel = genLabelMap(false).Draw(t, "setsel")
		}
		if kind == "replicationcontroller" && rapid.Bool().Draw(t, "tpl") {
			w.Template = genLabelMap(false).Draw(t, "tpllabels")
		}
	case "ingress":
		if rapid.Bool().Draw(t, "defbe") {
			s := rapid.SampledFrom([]string{"", "p1", "p2", "p3"}).Draw(t, "be")
			w.DefaultBackend = &s
		}
		for i := 0; i < rapid.IntRange(0, 2).Draw(t, "nrules"); i++ {
			w.Paths = append(w.Paths, rapid.SliceOfN(rapid.SampledFrom([]string{"", "p1", "p2", "p3", "p4"}), 0, 2).Draw(t, "paths"))
		}
	default:
		w.Sel = genSelSpec().Draw(t, "sel")
		if rapid.Bool().Draw(t, "tpl") {
			w.Template = genLabelMap(false).Draw(t, "tpllabels")
		}
	}
	return w
}

func runJoinCase(t *rapid.T, spec joinSpec) {
	gateSrc, gateDst := rapid.Bool().Draw(t, "gateSrc"), rapid.Bool().Draw(t, "gateDst")
	e := newJoinEnv(t, spec, rapid.Bool().Draw(t, "perturb"), rapid.Uint64().Draw(t, "pseed"), gateSrc, gateDst)
	defer func() {
		e.cancel()
		e.closeBases()
		if e.jc != nil {
			go e.jc.Close()
		}
		waitNoLibGoroutines(3 * time.Second)
	}()
	// emptyStart: the source collection is empty while the join comes up (no marker source either):
	// the join must still become ready - selecting nothing - once both bases are; the marker
	// sources are installed afterwards
	emptyStart := rapid.IntRange(0, 3).Draw(t, "emptyStart") == 0
	if !emptyStart {
		e.installPermanentMarkers()
	}
	dstNames := []string{"p1", "p2", "p3", "p4", "p5", "p6"}
	ops := map[string]func(*rapid.T){}
	selectorChange, cycle, srcAdded, srcRemoved, reverted := false, false, false, false, false
	srcHistory := map[string][]workload{}
	srcPut := func(t *rapid.T) {
		w := genJoinSource(t, spec.srcKind)
		k := w.NS + "/" + w.Name
		before := e.expected()
		e.srcState[k] = w
		after := e.expected()
		e.src.putObj(workloadObject(spec.srcKind, w))
		srcHistory[k] = append(srcHistory[k], w)
		e.h("source put %s", w)
		added, removed := diffStrings(before, after)
		srcAdded = srcAdded || added > 0
		srcRemoved = srcRemoved || removed > 0
		if added > 0 && removed > 0 {
			selectorChange = true
		}
	}
	srcDel := func(t *rapid.T) {
		if len(e.srcState) == 0 {
			t.Skip("no source")
		}
		ks := sortedWorkloadKeys(e.srcState)
		k := rapid.SampledFrom(ks).Draw(t, "srckey")
		w := e.srcState[k]
		delete(e.srcState, k)
		e.src.del(w.NS, w.Name)
		e.h("source del %s", k)
	}
	dstNamespaces := []string{"a", "b"}
	if spec.srcKind == "replicationcontroller" {
		// recorded finding C19/rc-podsfilter-ignores-namespace: cross-namespace candidates are excluded by construction
		dstNamespaces = []string{"a"}
		statExcluded("C09", 1)
	}
	dstPut := func(t *rapid.T) {
		ns := rapid.SampledFrom(dstNamespaces).Draw(t, "dns")
		name := rapid.SampledFrom(dstNames).Draw(t, "dname")
		l := genLabelMap(true).Draw(t, "dlabels")
		e.dst.putObj(e.dstObject(ns, name, l))
		e.h("destination put %s/%s%s", ns, name, labelsStr(l))
	}
	dstDel := func(t *rapid.T) {
		ns := rapid.SampledFrom(dstNamespaces).Draw(t, "dns")
		name := rapid.SampledFrom(dstNames).Draw(t, "dname")
		if _, ok := e.dst.del(ns, name); !ok {
			t.Skip("absent")
		}
		e.h("destination del %s/%s", ns, name)
	}
	// Close before ready: with at least one base still inside its (gated) first list, a join is
	// created and closed again before it can possibly have become ready.  "Closing the join result
	// stops everything the join created" holds for that join too: the library goroutine count must
	// return to the footprint of the bases alone, measured while they are frozen (gated bases wait
	// at the gate, the others are ready with their watch established).
	pendingFirst := map[*fakeAPI]*listReq{}
	earlyClosed := false
	if (gateSrc || gateDst) && rapid.IntRange(0, 2).Draw(t, "closeBeforeReady") == 0 {
		apis := []*fakeAPI{e.src, e.dst, e.mid}
		for i, b := range e.bases {
			api := apis[i]
			api.mu.Lock()
			gated := api.gated
			api.mu.Unlock()
			if gated {
				req := api.awaitListWedge()
				if req == nil {
					e.fail("WEDGE: base controller %d never issued its first List", i)
				}
				pendingFirst[api] = req
				continue
			}
			e.wait(b.Ready(), fmt.Sprintf("Ready() of ungated base controller %d", i))
			deadline := time.Now().Add(wedgeBoundNow())
			for api.watchCount() == 0 && time.Now().Before(deadline) {
				time.Sleep(200 * time.Microsecond)
			}
		}
		footprint, stable := -1, 0
		for i := 0; i < 2000 && stable < 5; i++ {
			c, _ := libGoroutines()
			if c == footprint {
				stable++
			} else {
				footprint, stable = c, 0
			}
			time.Sleep(time.Millisecond)
		}
		e.createJoin()
		if d := rapid.IntRange(0, 3).Draw(t, "earlyCloseDelay"); d > 0 {
			time.Sleep(time.Duration(d) * 100 * time.Microsecond)
		}
		if isClosedCh(e.jc.Ready()) {
			e.fail("the join is Ready() although a base controller is still inside its first list")
		}
		e.h("join closed before it became ready (library goroutines of the bases alone: %d)", footprint)
		if !closeBounded(e.jc) {
			e.fail("WEDGE: Close() of a join that is not ready yet did not return")
		}
		e.wait(e.jc.Done(), "Done() of a join closed before it became ready")
		e.wait(e.j.eof, "Events() of a subscriber of a join closed before it became ready")
		if c, dump := waitLibGoroutinesAtMost(footprint, wedgeBoundNow()); c > footprint {
			if len(dump) > 6000 {
				dump = dump[:6000]
			}
			e.fail("a join was closed before it became ready; afterwards %d goroutines created by the library are running, %d more than before the join existed: the join did not stop everything it created\n%s", c, c-footprint, dump)
		}
		for i, b := range e.bases {
			if isClosedCh(b.Done()) {
				e.fail("closing a join that was not ready shut down base controller %d", i)
			}
		}
		e.jc = nil
		earlyClosed = true
	}
	// first lists and readiness of the join
	e.createJoin()
	// pre-ready traffic goes into the first lists
	for i := 0; i < rapid.IntRange(0, 4).Draw(t, "pre"); i++ {
		if rapid.Bool().Draw(t, "presrc") && !emptyStart {
			srcPut(t)
		} else {
			dstPut(t)
		}
	}
	if spec.double {
		for i := 0; i < rapid.IntRange(0, 3).Draw(t, "premid"); i++ {
			w := genJoinSource(t, "service")
			w.Name = rapid.SampledFrom([]string{"p1", "p2", "p3", "p4"}).Draw(t, "midname")
			e.midState[w.NS+"/"+w.Name] = w
			e.mid.putObj(w.service())
			e.h("service put %s", w)
		}
	}
	releases := []string{}
	if gateSrc {
		releases = append(releases, "src")
	}
	if gateDst {
		releases = append(releases, "dst")
	}
	if len(releases) == 2 && rapid.Bool().Draw(t, "dstFirst") {
		releases[0], releases[1] = releases[1], releases[0]
	}
	for _, r := range releases {
		if isClosedCh(e.jc.Ready()) {
			e.fail("the join is Ready() although the first list of its %s base has not returned yet", r)
		}
		if c := e.j.eventCount(); c > 0 {
			e.fail("the join delivered %d events before both bases were ready", c)
		}
		api := e.src
		if r == "dst" {
			api = e.dst
		}
		req := pendingFirst[api]
		if req == nil {
			req = api.awaitListWedge()
		}
		if req == nil {
			e.fail("WEDGE: the %s base controller never issued its first List", r)
		}
		api.mu.Lock()
		api.gated = false
		api.mu.Unlock()
		req.release(api, false)
		e.h("first list of the %s base released", r)
	}
	for i, b := range e.bases {
		e.wait(b.Ready(), fmt.Sprintf("Ready() of base controller %d", i))
	}
	e.wait(e.jc.Ready(), "Ready() of the join after both bases became ready"+map[bool]string{true: " (the source collection is empty)", false: ""}[emptyStart])
	if emptyStart {
		objs, err := e.jc.Cache().List()
		if err != nil {
			e.fail("List() on the ready join failed: %v", err)
		}
		if len(objs) != 0 {
			e.fail("the join has no source object at all but its cache holds %d objects, e.g. %s", len(objs), objStr(objs[0]))
		}
		e.h("join ready with an empty source collection")
		e.installPermanentMarkers()
	}
	// baseline of library goroutines without the join: measured by closing this first join
	e.check("first check")
	ops["srcPut"] = srcPut
	ops["srcDel"] = srcDel
	// a source that is the twin of an existing one - same selector, labels, backends - under another
	// namespace and/or name (a headless service next to its ClusterIP twin, the same chart installed
	// in two namespaces): each selects in its own namespace
	ops["srcTwin"] = func(t *rapid.T) {
		if len(e.srcState) == 0 || spec.srcKind == "replicationcontroller" {
			t.Skip("no source to copy")
		}
		w := e.srcState[rapid.SampledFrom(sortedWorkloadKeys(e.srcState)).Draw(t, "twinOf")]
		w.NS = rapid.SampledFrom([]string{"a", "b"}).Draw(t, "twinNS")
		w.Name = rapid.SampledFrom([]string{"s1", "s2", "s3"}).Draw(t, "twinName")
		k := w.NS + "/" + w.Name
		before := e.expected()
		e.srcState[k] = w
		after := e.expected()
		e.src.putObj(workloadObject(spec.srcKind, w))
		srcHistory[k] = append(srcHistory[k], w)
		e.h("source put %s (twin of another source)", w)
		added, removed := diffStrings(before, after)
		srcAdded = srcAdded || added > 0
		srcRemoved = srcRemoved || removed > 0
	}
	ops["dstPut"] = dstPut
	ops["dstPut2"] = dstPut
	ops["dstDel"] = dstDel
	if spec.double {
		ops["midPut"] = func(t *rapid.T) {
			w := genJoinSource(t, "service")
			w.Name = rapid.SampledFrom([]string{"p1", "p2", "p3", "p4"}).Draw(t, "midname")
			e.midState[w.NS+"/"+w.Name] = w
			e.mid.putObj(w.service())
			e.h("service put %s", w)
		}
		ops["midDel"] = func(t *rapid.T) {
			if len(e.midState) == 0 {
				t.Skip("no service")
			}
			k := rapid.SampledFrom(sortedWorkloadKeys(e.midState)).Draw(t, "midkey")
			w := e.midState[k]
			delete(e.midState, k)
			e.mid.del(w.NS, w.Name)
			e.h("service del %s", k)
		}
	}
	// a source disappears and later reappears unchanged (its dependants untouched in between)
	var parked []workload
	ops["srcReappear"] = func(t *rapid.T) {
		if len(parked) > 0 && rapid.Bool().Draw(t, "bringBack") {
			w := parked[len(parked)-1]
			parked = parked[:len(parked)-1]
			if _, exists := e.srcState[w.NS+"/"+w.Name]; exists {
				t.Skip("name taken meanwhile")
			}
			e.srcState[w.NS+"/"+w.Name] = w
			e.src.putObj(workloadObject(spec.srcKind, w))
			e.h("source reappears unchanged: %s", w)
			if rapid.IntRange(0, 2).Draw(t, "checkNow") > 0 {
				e.check("after a source reappeared")
			}
			return
		}
		if len(e.srcState) == 0 {
			t.Skip("no source")
		}
		k := rapid.SampledFrom(sortedWorkloadKeys(e.srcState)).Draw(t, "srckey")
		w := e.srcState[k]
		delete(e.srcState, k)
		e.src.del(w.NS, w.Name)
		parked = append(parked, w)
		e.h("source disappears (to reappear later): %s", k)
		srcRemoved = true
		if rapid.Bool().Draw(t, "checkGone") {
			e.check("after a source disappeared")
		}
	}
	// a source takes a shape it had earlier in the history again (selector A -> B -> A, also across a
	// delete and re-creation): the join has to follow every time, whatever it remembers about the past
	ops["srcRevert"] = func(t *rapid.T) {
		var ks []string
		for k, hs := range srcHistory {
			if len(hs) >= 2 {
				ks = append(ks, k)
			}
		}
		if len(ks) == 0 {
			t.Skip("no source with a past")
		}
		sortStrings(ks)
		k := rapid.SampledFrom(ks).Draw(t, "revkey")
		hs := srcHistory[k]
		w := hs[rapid.IntRange(0, len(hs)-2).Draw(t, "past")]
		before := e.expected()
		_, existed := e.srcState[k]
		e.srcState[k] = w
		after := e.expected()
		e.src.putObj(workloadObject(spec.srcKind, w))
		srcHistory[k] = append(srcHistory[k], w)
		e.h("source %s an earlier shape again: %s", map[bool]string{true: "updated to", false: "re-created with"}[existed], w)
		added, removed := diffStrings(before, after)
		if added > 0 && removed > 0 {
			selectorChange = true
		}
		reverted = true
		if rapid.IntRange(0, 3).Draw(t, "checkNow") > 0 {
			e.check("after a source took an earlier shape again")
		}
	}
	ops["srcRevert2"] = ops["srcRevert"]
	ops["check"] = func(t *rapid.T) { e.check("check") }
	baseline := -1
	ops["cycle"] = func(t *rapid.T) {
		// close the join, measure / compare the baseline, create a fresh join over the same bases
		e.check("before closing the join")
		if baseline < 0 {
			// first close: whatever remains is the bases' own footprint
			if !closeBounded(e.jc) {
				e.fail("WEDGE: Close() of the join result did not return")
			}
			e.wait(e.jc.Done(), "Done() of the join result")
			e.wait(e.j.eof, "Events() of the join's subscriber closed")
			// settle, then take the footprint of the bases
			prev := -1
			for i := 0; i < 200; i++ {
				c, _ := libGoroutines()
				if c == prev {
					break
				}
				prev = c
				time.Sleep(2 * time.Millisecond)
			}
			baseline = prev
			e.h("join closed; library goroutines of the bases alone: %d", baseline)
			e.jc = nil
			e.createJoin()
			e.wait(e.jc.Ready(), "Ready() of a join created over ready bases")
			e.check("after re-creating the join")
			return
		}
		e.closeJoin(baseline)
		cycle = true
		e.jc = nil
		e.createJoin()
		e.wait(e.jc.Ready(), "Ready() of a join created over ready bases")
		e.check("after re-creating the join")
	}
	t.Repeat(ops)
	e.check("final check")
	if baseline >= 0 {
		e.closeJoin(baseline)
		cycle = true
		e.jc = nil
	}
	// shut the bases down: nothing may be left
	for _, b := range e.bases {
		if !closeBounded(b) {
			e.fail("WEDGE: Close() of a base controller did not return")
		}
	}
	if e.jc != nil {
		e.wait(e.jc.Done(), "Done() of the join after its bases were closed")
	}
	if c, dump := waitNoLibGoroutines(wedgeBoundNow()); c != 0 {
		if len(dump) > 6000 {
			dump = dump[:6000]
		}
		e.fail("%d library goroutines left after the bases were closed:\n%s", c, dump)
	}
	hist := append([]string(nil), e.hist...)
	statCase("C09", hashString(spec.name+strings.Join(hist, ";")), (selectorChange || (srcAdded && srcRemoved)) && cycle, func() interface{} {
		return map[string]interface{}{"join": spec.name, "history": hist}
	}, "join_"+spec.name, fmt.Sprintf("create_close_cycle=%v", cycle), fmt.Sprintf("gated_first_lists=%d", len(releases)), fmt.Sprintf("empty_source_at_start=%v", emptyStart), fmt.Sprintf("join_closed_before_ready=%v", earlyClosed), fmt.Sprintf("join_context_cancelled_before_close=%v", e.ctxCancelled), fmt.Sprintf("source_reverted_to_an_earlier_shape=%v", reverted))
}

func diffStrings(before, after []string) (added, removed int) {
	b := map[string]bool{}
	for _, s := range before {
		b[strings.Split(s, "@")[0]] = true
	}
	a := map[string]bool{}
	for _, s := range after {
		a[strings.Split(s, "@")[0]] = true
	}
	for k := range a {
		if !b[k] {
			added++
		}
	}
	for k := range b {
		if !a[k] {
			removed++
		}
	}
	return
}

func sortedWorkloadKeys(m map[string]workload) []string {
	ks := make([]string, 0, len(m))
	for k := range m {
		ks = append(ks, k)
	}
	sortStrings(ks)
	return ks
}

func TestC09_Joins(t *testing.T) {
	only := onlyCase()
	rapid.Check(t, func(t *rapid.T) {
		// the double join has the most moving parts: drawn three times as often as each single join
		spec := rapid.SampledFrom(append(append([]joinSpec{}, joinSpecs...), joinSpecs[len(joinSpecs)-1], joinSpecs[len(joinSpecs)-1])).Draw(t, "join")
		if only != "" {
			for _, s := range joinSpecs {
				if s.name == only {
					spec = s
				}
			}
		}
		runJoinCase(t, spec)
	})
}
