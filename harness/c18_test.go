//go:build verif

package verifharness

// C18 — filter combinators implement boolean and label-selector semantics.
//
// Oracle: build(term).Accept(o) == term.eval(o) for the independent evaluator
// in terms_test.go; Accept is pure (same answer twice, object unchanged).

import (
	"fmt"
	"reflect"
	"testing"

	"github.com/boz/kcache/filter"
	"github.com/boz/kcache/nsname"
	metav1 "k8s.io/apimachinery/pkg/apis/meta/v1"
	"pgregory.net/rapid"
)

var c18Universe = objectUniverse(uniNamespaces, uniNames, allLabelMaps(uniKeys, uniValues), false)

func c18Nontrivial(tm *term) bool {
	if tm.depth() < 2 {
		return false
	}
	return tm.anyKind(func(x *term) bool {
		switch x.Kind {
		case tNSName:
			for _, id := range x.IDs {
				if id.Namespace == "" || id.Name == "" {
					return true
				}
			}
		case tLabelSelector:
			return len(x.Sel.Exprs) > 0
		}
		return false
	})
}

// c18CheckTerm compares the built filter with the evaluator on every object
// of objs; returns a description of the first disagreement.
func c18CheckTerm(tm *term, objs []metav1.Object) string {
	f := tm.build()
	for _, o := range objs {
		before := deepCopyObj(o)
		got := f.Accept(o)
		again := f.Accept(o)
		want := tm.eval(o)
		if got != again {
			return fmt.Sprintf("Accept is not a function of the object: %v then %v for %s on %s", got, again, tm, describeObj(o))
		}
		if !reflect.DeepEqual(before, o) {
			return fmt.Sprintf("Accept modified its argument: %s on %s", tm, describeObj(o))
		}
		if got != want {
			return fmt.Sprintf("Accept=%v reference=%v for %s on %s", got, want, tm, describeObj(o))
		}
	}
	// the same constructor call repeated over the very same argument values (one id slice, one label
	// map, one selector object): both results must still follow the reference
	f1, f2 := tm.buildTwice()
	for i, g := range []filter.Filter{f1, f2} {
		for _, o := range objs {
			if got, want := g.Accept(o), tm.eval(o); got != want {
				return fmt.Sprintf("filter number %d built from one set of argument values: Accept=%v reference=%v for %s on %s", i+1, got, want, tm, describeObj(o))
			}
		}
	}
	return ""
}

func TestC18_Random(t *testing.T) { rapid.Check(t, c18RandomProp) }

// FuzzC18: the same property under Go's coverage-guided fuzzer (thorough tier).
func FuzzC18(f *testing.F) { f.Fuzz(rapid.MakeFuzz(c18RandomProp)) }

func c18RandomProp(t *rapid.T) {
	cfg := termCfg{fn: true}
	{
		tm := genTerm(cfg, 3).Draw(t, "term")
		// a generated slice of the universe keeps one case cheap; the
		// enumerative runs cover the full universe
		n := rapid.IntRange(1, 12).Draw(t, "nobj")
		objs := make([]metav1.Object, 0, n)
		for i := 0; i < n; i++ {
			objs = append(objs, c18Universe[rapid.IntRange(0, len(c18Universe)-1).Draw(t, "obj")])
		}
		if msg := c18CheckTerm(tm, objs); msg != "" {
			t.Fatalf("C18 violation: %s", msg)
		}
		s := tm.String()
		statCase("C18", hashString(s), c18Nontrivial(tm), func() interface{} {
			return map[string]interface{}{"term": s, "objects": len(objs), "first_object": describeObj(objs[0])}
		}, fmt.Sprintf("depth%d", tm.depth()))
	}
}

// c18Atoms: the atom set for the enumerative runs (filter package only).
func c18Atoms() []*term {
	ns := func(ids ...string) *term {
		tm := &term{Kind: tNSName}
		for _, id := range ids {
			p, err := nsname.Parse(id)
			if err != nil {
				panic(err)
			}
			tm.IDs = append(tm.IDs, p)
		}
		return tm
	}
	lab := func(kv ...string) *term {
		tm := &term{Kind: tLabels, Set: map[string]string{}}
		for i := 0; i+1 < len(kv); i += 2 {
			tm.Set[kv[i]] = kv[i+1]
		}
		return tm
	}
	sel := func(s selSpec) *term { return &term{Kind: tLabelSelector, Sel: s} }
	atoms := []*term{
		{Kind: tNull}, {Kind: tAll}, {Kind: tSelEverything}, {Kind: tSelNothing},
		ns(), ns("a/p"), ns("a/p", "b/q"), ns("a/"), ns("/p"), ns("a/", "/q"), ns("a/p", "b/", "/r"), ns("b/q", "a/p"), ns("c/", "a/q"),
		{Kind: tLabels}, lab(), lab("x", "1"), lab("x", "2"), lab("y", "1"), lab("x", "1", "y", "2"),
		sel(selSpec{Nil: true}), sel(selSpec{}), sel(selSpec{MatchLabels: map[string]string{}}), sel(selSpec{MatchLabels: map[string]string{"x": "1"}}),
		sel(selSpec{Exprs: []selReq{{Key: "x", Op: "In", Values: []string{"1", "2"}}}}),
		sel(selSpec{Exprs: []selReq{{Key: "x", Op: "In", Values: []string{"2", "1"}}}}),
		sel(selSpec{Exprs: []selReq{{Key: "x", Op: "NotIn", Values: []string{"1"}}}}),
		sel(selSpec{Exprs: []selReq{{Key: "x", Op: "In", Values: []string{"1"}}}}),
		sel(selSpec{Exprs: []selReq{{Key: "x", Op: "In", Values: []string{"1", "2", "3"}}}}),
		sel(selSpec{Exprs: []selReq{{Key: "x", Op: "NotIn", Values: []string{"1", "2"}}}}),
		sel(selSpec{Exprs: []selReq{{Key: "x", Op: "DoesNotExist"}}}),
		sel(selSpec{MatchLabels: map[string]string{"x": "1", "y": "2"}}),
		sel(selSpec{Exprs: []selReq{{Key: "y", Op: "Exists"}}}),
		sel(selSpec{Exprs: []selReq{{Key: "y", Op: "DoesNotExist"}}}),
		sel(selSpec{MatchLabels: map[string]string{"x": "1"}, Exprs: []selReq{{Key: "y", Op: "NotIn", Values: []string{"2", "3"}}}}),
		sel(selSpec{Exprs: []selReq{{Key: "x", Op: "Exists"}, {Key: "x", Op: "NotIn", Values: []string{"3"}}}}),
		{Kind: tFN, FN: 0}, {Kind: tFN, FN: 1},
	}
	return atoms
}

// composeOver returns Not(x), And/Or of 0, 1 and 2 children over xs.
func composeOver(xs []*term, pairs bool) []*term {
	var out []*term
	for _, x := range xs {
		out = append(out, &term{Kind: tNot, Children: []*term{x}})
	}
	for _, k := range []termKind{tAnd, tOr} {
		out = append(out, &term{Kind: k, Children: []*term{}})
		for _, x := range xs {
			out = append(out, &term{Kind: k, Children: []*term{x}})
		}
		if pairs {
			for _, x := range xs {
				for _, y := range xs {
					out = append(out, &term{Kind: k, Children: []*term{x, y}})
				}
			}
		}
	}
	return out
}

// TestC18_Enum: every term of depth <= 1 over the atom set (and, in the
// thorough tier, depth 2 with binary And/Or over all depth<=1 terms, sharded)
// against the complete object universe.
func TestC18_Enum(t *testing.T) {
	atoms := c18Atoms()
	d1 := append(append([]*term{}, atoms...), composeOver(atoms, true)...)
	shard, nshards := shardOf()
	check := func(idx int, tm *term) {
		if idx%nshards != shard {
			return
		}
		if msg := c18CheckTerm(tm, c18Universe); msg != "" {
			writeEnumReplay(t, "C18", "TestC18_Enum", tm.String(), msg)
			t.Fatalf("C18 violation: %s", msg)
		}
		s := tm.String()
		statCase("C18", hashString(s), c18Nontrivial(tm), func() interface{} {
			return map[string]interface{}{"term": s, "objects": len(c18Universe), "mode": "enumerated"}
		}, fmt.Sprintf("enum_depth%d", tm.depth()))
	}
	idx := 0
	for _, tm := range d1 {
		check(idx, tm)
		idx++
	}
	what := fmt.Sprintf("all %d terms of depth<=1 over %d atoms x %d objects", len(d1), len(atoms), len(c18Universe))
	if tierThorough() {
		// depth 2: Not over depth-1 terms, binary And/Or over (depth<=1) x atoms and atoms x (depth<=1)
		for _, x := range d1 {
			check(idx, &term{Kind: tNot, Children: []*term{x}})
			idx++
		}
		for _, k := range []termKind{tAnd, tOr} {
			for _, x := range d1 {
				for _, y := range atoms {
					check(idx, &term{Kind: k, Children: []*term{x, y}})
					idx++
					check(idx, &term{Kind: k, Children: []*term{y, x}})
					idx++
				}
			}
		}
		what += fmt.Sprintf("; %d terms of depth 2 (Not over depth<=1; binary And/Or with one depth<=1 and one atom child)", idx-len(d1))
	}
	if shard == 0 {
		statExhaustive("C18", what)
	}
}

var _ = filter.Null

// TestC18_SharedSubfilters: filters are values that user code keeps and
// combines again.  A base composite is built by accumulation (f = And(f, x)
// step by step, as a loop over configured restrictions does), then two
// different filters are derived from the same base value, in both positions
// (And(base, p) / And(p, base)).  Every one of the filters ever built must
// keep agreeing with the reference evaluator of its own term - also after the
// later ones have been constructed (Accept is a function of the object, not of
// what else was built in the meantime).
func TestC18_SharedSubfilters(t *testing.T) {
	rapid.Check(t, func(t *rapid.T) {
		cfg := termCfg{}
		kind := rapid.SampledFrom([]termKind{tAnd, tOr}).Draw(t, "kind")
		mk := func(fs ...filter.Filter) filter.Filter {
			if kind == tAnd {
				return filter.And(fs...)
			}
			return filter.Or(fs...)
		}
		type built struct {
			tm *term
			f  filter.Filter
		}
		var all []built
		// the base, by accumulation
		leaves := rapid.SliceOfN(genTerm(cfg, 1), 1, 5).Draw(t, "baseLeaves")
		var baseT *term
		var baseF filter.Filter
		for i, l := range leaves {
			if i == 0 {
				baseT = &term{Kind: kind, Children: []*term{l}}
				baseF = mk(l.build())
			} else {
				baseT = &term{Kind: kind, Children: []*term{baseT, l}}
				baseF = mk(baseF, l.build())
			}
			all = append(all, built{baseT, baseF})
		}
		// derived filters sharing the base value
		nder := rapid.IntRange(2, 4).Draw(t, "derived")
		for i := 0; i < nder; i++ {
			p := genTerm(cfg, 1).Draw(t, "extra")
			switch rapid.IntRange(0, 2).Draw(t, "position") {
			case 0:
				all = append(all, built{&term{Kind: kind, Children: []*term{baseT, p}}, mk(baseF, p.build())})
			case 1:
				all = append(all, built{&term{Kind: kind, Children: []*term{p, baseT}}, mk(p.build(), baseF)})
			default:
				q := genTerm(cfg, 1).Draw(t, "extra2")
				all = append(all, built{&term{Kind: kind, Children: []*term{baseT, p, q}}, mk(baseF, p.build(), q.build())})
			}
		}
		// judge every filter after everything has been built
		for i, b := range all {
			for _, o := range c18Universe {
				if got, want := b.f.Accept(o), b.tm.eval(o); got != want {
					t.Fatalf("C18 violation: filter #%d of %d built from shared sub-filters: Accept=%v reference=%v for %s on %s (later filters were derived from the same base value)", i, len(all), got, want, b.tm, describeObj(o))
				}
			}
		}
		statCase("C18", hashString("shared:"+all[len(all)-1].tm.String()), len(leaves) >= 3, func() interface{} {
			return map[string]interface{}{"mode": "filters derived from a shared base value", "base": baseT.String(), "filters_built": len(all)}
		}, "shared_subfilters")
	})
}
