//go:build verif

package verifharness

import (
	"encoding/json"
	"fmt"
	"os"
	"path/filepath"
	"strings"
	"sync/atomic"
	"testing"
	"time"

	metav1 "k8s.io/apimachinery/pkg/apis/meta/v1"
	"k8s.io/apimachinery/pkg/runtime"
)

func deepCopyObj(o metav1.Object) metav1.Object {
	if ro, ok := o.(runtime.Object); ok {
		if c, ok := ro.DeepCopyObject().(metav1.Object); ok {
			return c
		}
	}
	panic(fmt.Sprintf("cannot copy %T", o))
}

// writeEnumReplay stores a failing case of an enumerative (non-rapid) run as
// a JSON replay file; run.py --replay re-runs the test with VERIF_ONLY_CASE.
func writeEnumReplay(t testing.TB, prop, test, caseID, msg string) string {
	dir := os.Getenv("VERIF_REPLAY_DIR")
	if dir == "" {
		dir = "."
	}
	name := filepath.Join(dir, fmt.Sprintf("%s-%s-%d-%d.json", prop, test, os.Getpid(), time.Now().UnixNano()))
	js, _ := json.MarshalIndent(map[string]interface{}{"property": prop, "test": test, "case": caseID, "message": msg}, "", " ")
	_ = os.WriteFile(name, js, 0o644)
	fmt.Printf("VERIF-REPLAY property=%s file=%s\n", prop, name)
	return name
}

// onlyCase returns the case selected by a replay, or "".
func onlyCase() string { return os.Getenv("VERIF_ONLY_CASE") }

// closeBounded calls Close() without ever blocking the test beyond the wedge
// bound; it reports whether Close() returned.
func closeBounded(c interface{ Close() }) bool {
	done := make(chan struct{})
	go func() { c.Close(); close(done) }()
	return waitWedge(done)
}

// getenvGodebug returns the value of one GODEBUG setting from the environment.
func getenvGodebug(key string) string {
	for _, kv := range strings.Split(os.Getenv("GODEBUG"), ",") {
		if strings.HasPrefix(kv, key+"=") {
			return strings.TrimPrefix(kv, key+"=")
		}
	}
	return ""
}

func isWedgeSeen() bool { return atomic.LoadInt32(&wedgeSeen) != 0 }
func setWedgeSeen()     { atomic.StoreInt32(&wedgeSeen, 1) }
