//go:build verif

package verifharness

// C04 — watch continuity: events keep flowing across reconnects without a
// relist.  Refresh period 1 h, so only the watch can deliver; the number of
// List calls must stay 1.
//
// Generated: server history x watch faults {server closes the stream (also
// right after a burst), Watch() fails k times, status / bookmark /
// unknown-type / nil-object frames at generated positions} x controller speed
// at the disconnect (a sleeping controller-level filter keeps the watcher's
// buffer non-empty when the stream ends).
//
// Oracle: a final double-marker barrier through the (reconnected) watch
// arrives; then cache == server state exactly and the unfiltered subscriber's
// strict mirror == cache (every server event was applied or superseded, none
// twice); the resourceVersions of successive Watch() calls never decrease and
// each is the list's version or the version of an event the fake really sent
// on an earlier session; exactly one List call was made.

import (
	"context"
	"fmt"
	"strconv"
	"strings"
	"sync/atomic"
	"testing"
	"time"

	"github.com/boz/kcache"
	"github.com/boz/kcache/filter"
	metav1 "k8s.io/apimachinery/pkg/apis/meta/v1"
	"pgregory.net/rapid"
)

func TestC04_Reconnects(t *testing.T) {
	maxFaults := envInt("VERIF_C04_MAXFAULTS", 2)
	rapid.Check(t, func(t *rapid.T) {
		a := newFakeAPI()
		var hist []string
		h := func(format string, args ...interface{}) {
			hist = append(hist, fmt.Sprintf(format, args...))
			traceOp(format, args...)
		}
		fail := func(format string, args ...interface{}) {
			t.Fatalf("C04 violation: %s\nwatch resourceVersions: %v, List calls: %d\nHISTORY:\n  %s", fmt.Sprintf(format, args...), a.watchRVs(), a.listCount(), strings.Join(hist, "\n  "))
		}
		// some initial content
		for i := 0; i < rapid.IntRange(0, 4).Draw(t, "initial"); i++ {
			a.put("a", fmt.Sprintf("i%d", i), nil)
		}
		var slowNs int64
		slow := filter.FN(func(metav1.Object) bool {
			if d := atomic.LoadInt64(&slowNs); d > 0 {
				time.Sleep(time.Duration(d))
			}
			return true
		})
		ctx, cancel := context.WithCancel(context.Background())
		defer cancel()
		plog := newPlog(rapid.Bool().Draw(t, "perturb"), rapid.Uint64().Draw(t, "pseed"))
		b := kcache.NewBuilder().Context(ctx).Log(plog).Client(a).Filter(slow)
		b.Lister().RefreshPeriod(time.Hour)
		// fault plan of the first session
		junk := rapid.Bool().Draw(t, "frames")
		mkPlan := func() sessPlan {
			p := noPlan()
			if junk {
				p.status, p.bookmark, p.unknown, p.errobj = map[int]bool{}, map[int]bool{}, map[int]bool{}, map[int]bool{}
				for i := 0; i < 80; i++ {
					switch rapid.IntRange(0, 11).Draw(t, "frame") {
					case 0:
						p.status[i] = true
					case 1:
						p.bookmark[i] = true
					case 2:
						p.unknown[i] = true
					case 3:
						p.errobj[i] = true
					}
				}
			}
			return p
		}
		a.plans = []sessPlan{mkPlan()}
		root, err := b.Create()
		if err != nil {
			t.Fatalf("create: %v", err)
		}
		defer func() { cancel(); go root.Close() }()
		if !waitWedge(root.Ready()) {
			fail("WEDGE: controller never became ready")
		}
		sub, err := root.Subscribe()
		if err != nil {
			t.Fatalf("subscribe: %v", err)
		}
		sn := &node{kind: "sub", sub: sub, leaf: sub, note: make(chan struct{}, 1), eof: make(chan struct{})}
		base, err := root.Cache().List()
		if err != nil {
			t.Fatalf("list: %v", err)
		}
		sn.mirror = map[string]metav1.Object{}
		for _, o := range base {
			sn.mirror[objKey(o)] = o
		}
		sn.mirrorOn = true
		go sn.pump()
		// what the subscriber had already received when each Watch() call arrived:
		// the watcher had forwarded at least that much, so a resume below it re-reads events
		var seenAtWatch []int
		a.mu.Lock()
		a.onWatch = func(idx int) {
			sn.mu.Lock()
			v := sn.maxRV
			sn.mu.Unlock()
			a.mu.Lock()
			for len(seenAtWatch) <= idx {
				seenAtWatch = append(seenAtWatch, 0)
			}
			seenAtWatch[idx] = v
			a.mu.Unlock()
		}
		a.mu.Unlock()

		keys := [][2]string{{"a", "p"}, {"a", "q"}, {"b", "p"}, {"b", "q"}}
		nfault, nconnerr, afterReconnect, burstClose, slowAtClose, nilFrames := 0, 0, 0, 0, 0, 0
		nops := rapid.IntRange(1, 25).Draw(t, "nops")
		inflight := 0
		var drain time.Duration
		for i := 0; i < nops; i++ {
			switch rapid.IntRange(0, 7).Draw(t, "op") {
			case 0, 1, 2, 3:
				k := rapid.SampledFrom(keys).Draw(t, "k")
				if a.has(k[0], k[1]) && rapid.IntRange(0, 3).Draw(t, "del") == 0 {
					rv, _ := a.del(k[0], k[1])
					h("del %s/%s -> rv %d", k[0], k[1], rv)
				} else {
					l := drawLabels(t)
					rv := a.put(k[0], k[1], l)
					h("put %s/%s%s -> rv %d", k[0], k[1], labelsStr(l), rv)
				}
				if nfault > 0 {
					afterReconnect++
				}
				inflight++
			case 4, 5:
				if nfault >= maxFaults {
					continue
				}
				nfault++
				// the controller may be slow while the burst arrives and the stream closes
				d := rapid.SampledFrom([]int{0, 0, 50, 200, 30000}).Draw(t, "slowUs")
				atomic.StoreInt64(&slowNs, int64(d)*1000)
				burst := rapid.IntRange(0, 40).Draw(t, "burst")
				if d >= 30000 {
					// slow enough for the buffer to be non-empty when the reconnect happens, 1 s later
					burst = rapid.IntRange(36, 45).Draw(t, "bigburst")
				}
				if inflight+burst > 80 {
					burst = 0
				}
				for j := 0; j < burst; j++ {
					a.put("a", "burst", map[string]string{"n": strconv.Itoa(j)})
				}
				inflight += burst
				drain += time.Duration(burst+8) * time.Duration(d) * time.Microsecond
				ce := rapid.IntRange(0, 1).Draw(t, "connErrs")
				a.mu.Lock()
				a.connErrs = ce
				if ce > 0 {
					a.connErr = rapid.SampledFrom(watchErrFlavours).Draw(t, "connectErrorFlavour").err
				}
				a.plans = []sessPlan{mkPlan()}
				a.mu.Unlock()
				nconnerr += ce
				how := "server closes the stream"
				if rapid.IntRange(0, 3).Draw(t, "nilframe") == 0 {
					// a frame without object ends the session on the client side
					how = "frame without object"
					nilFrames++
					a.mu.Lock()
					for _, s := range a.sessions {
						if !s.closed && !s.stopped() {
							s.enqueue(watchEventNil())
						}
					}
					a.mu.Unlock()
				} else {
					a.closeSessions()
				}
				if burst > 0 {
					burstClose++
				}
				if d > 0 && burst > 0 {
					slowAtClose++
				}
				h("burst of %d updates, then %s; next %d Watch() calls fail; controller filter sleeps %dus per event", burst, how, ce, d)
				if rapid.Bool().Draw(t, "waitReconnect") {
					time.Sleep(time.Duration(1050+1000*ce) * time.Millisecond)
					atomic.StoreInt64(&slowNs, 0)
					inflight = 0
				}
			default:
				time.Sleep(time.Duration(rapid.IntRange(0, 3).Draw(t, "sleepms")) * time.Millisecond)
			}
		}
		atomic.StoreInt64(&slowNs, 0)
		// final barrier through the watch: two markers
		slack := wedgeBound
		if atomic.LoadInt32(&wedgeSeen) != 0 {
			slack = wedgeAfter
		}
		bound := time.Duration(nfault+nconnerr+1)*1100*time.Millisecond + drain + slack
		for m := 0; m < 2; m++ {
			rv := a.put(markerNS, "marker", nil)
			deadline := time.Now().Add(bound)
			for {
				sn.mu.Lock()
				seen := sn.markSeen
				sn.mu.Unlock()
				if seen >= rv {
					break
				}
				if time.Now().After(deadline) {
					if plog.WatchDrops() > 0 {
						statLabel("C04", "discarded_harness_overflow", 1)
						return
					}
					atomic.StoreInt32(&wedgeSeen, 1)
					_, dump := libGoroutines()
					fail("the marker published at rv %d never arrived through the watch (%d disconnects, %d connect errors; waited %v): events after a reconnect are not delivered without a relist\n%s", rv, nfault, nconnerr, bound, dump)
				}
				select {
				case <-sn.note:
				case <-time.After(2 * time.Millisecond):
				}
			}
		}
		if plog.WatchDrops() > 0 {
			statLabel("C04", "discarded_harness_overflow", 1)
			return
		}
		got, err := root.Cache().List()
		if err != nil {
			fail("List failed: %v", err)
		}
		gk, want := keyVersions(got), keyVersions(a.state())
		if !sameStrings(gk, want) {
			fail("after the server quiesced and the marker arrived the cache %v differs from the server %v", gk, want)
		}
		_, mirror, merr, _, _ := sn.snapshotObs()
		if merr != "" {
			fail("the subscriber's event stream is not a well-formed delta (event discarded or applied twice?): %s", merr)
		}
		if !sameStrings(mirror, gk) {
			fail("a subscriber replaying Events() holds %v but the cache holds %v", mirror, gk)
		}
		if n := a.listCount(); n != 1 {
			fail("%d List calls were made although the refresh period is 1h: convergence must come from the watch", n)
		}
		// resume versions
		a.mu.Lock()
		sentBefore := map[string]bool{}
		prev := -1
		var rvErr string
		listRV := ""
		for i, wc := range a.watchCalls {
			if i == 0 {
				listRV = wc.rv
			}
			v, _ := strconv.Atoi(wc.rv)
			if v < prev {
				rvErr = fmt.Sprintf("Watch call %d resumes at %s, before the previous call's %d", i, wc.rv, prev)
			}
			if wc.rv != listRV && !sentBefore[wc.rv] {
				rvErr = fmt.Sprintf("Watch call %d resumes at %s, which is neither the list version %s nor the version of an event sent on an earlier session", i, wc.rv, listRV)
			}
			if i > 0 && i < len(seenAtWatch) && v < seenAtWatch[i] {
				rvErr = fmt.Sprintf("Watch call %d resumes at %s although the subscriber had already received version %d: the reconnect does not resume after the last event received", i, wc.rv, seenAtWatch[i])
			}
			prev = v
			if wc.sess != nil {
				for _, rv := range wc.sess.sent {
					sentBefore[strconv.Itoa(rv)] = true
				}
			}
		}
		a.mu.Unlock()
		if rvErr != "" {
			fail("%s", rvErr)
		}
		if isClosedCh(root.Done()) {
			fail("the controller shut down: %v", root.Error())
		}
		if !closeBounded(root) {
			fail("WEDGE: Close() did not return")
		}
		cancel()
		if n, dump := waitNoLibGoroutines(wedgeBound); n != 0 {
			fail("%d library goroutines left after Close:\n%s", n, dump)
		}
		labels := []string{fmt.Sprintf("reconnects=%d", nfault)}
		for k, v := range map[string]int{"burst_then_close": burstClose, "connect_error_streak": nconnerr, "slow_controller_at_disconnect": slowAtClose, "non_object_frames": b2i(junk), "nil_object_frame": nilFrames} {
			if v > 0 {
				labels = append(labels, k)
			}
		}
		hh := append([]string(nil), hist...)
		statCase("C04", hashString(strings.Join(hist, ";")), nfault >= 1 && afterReconnect >= 1, func() interface{} {
			return map[string]interface{}{"history": hh, "watch_resource_versions": a.watchRVs()}
		}, labels...)
		statExtraAdd("C04", "reconnects", int64(nfault))
	})
}

func b2i(b bool) int {
	if b {
		return 1
	}
	return 0
}
