//go:build verif

package verifharness

// fakeAPI: an in-memory, type-agnostic model of one API collection that
// implements client.Client with real list/watch/resume semantics:
//   - a global monotone resourceVersion, the current objects, and an
//     append-only event log;
//   - List takes a snapshot, optionally waits at a gate the harness opens,
//     honours ctx, and can be told to fail in its k-th call;
//   - Watch(RV) replays every log entry with rv > RV and then follows the log,
//     so a resume at a wrong version loses or duplicates events exactly as a
//     real server would; per-session fault plans close the stream, inject
//     Status / Bookmark / nil-object / unknown-type frames, drop or duplicate
//     events;
//   - every call is recorded (the observation point for C03/C04/C13/C14/C20).

import (
	"context"
	"errors"
	"fmt"
	"io"
	"strconv"
	"sync"
	"sync/atomic"
	"time"

	"github.com/boz/kcache"
	pkgerrors "github.com/pkg/errors"
	corev1 "k8s.io/api/core/v1"
	apierrors "k8s.io/apimachinery/pkg/api/errors"
	metav1 "k8s.io/apimachinery/pkg/apis/meta/v1"
	"k8s.io/apimachinery/pkg/runtime"
	"k8s.io/apimachinery/pkg/watch"
)

type kobj interface {
	metav1.Object
	runtime.Object
}

type logEntry struct {
	rv  int
	typ watch.EventType
	obj kobj
}

var errInjected = errors.New("injected list failure")

// listErrFlavours: the error values a failing List call may return.  Every
// one of them is "a list call that fails": client-go surfaces request-scoped
// context errors, transport errors and API status errors through the same
// return value.  None of them means that the controller's own context was
// cancelled (the harness never cancels it while injecting one).
type tempNetErr struct{}

func (tempNetErr) Error() string   { return "dial tcp 10.0.0.1:443: i/o timeout (injected)" }
func (tempNetErr) Timeout() bool   { return true }
func (tempNetErr) Temporary() bool { return true }

type listErrFlavour struct {
	name string
	err  error
}

var listErrFlavours = []listErrFlavour{
	{"plain", errInjected},
	{"context.Canceled", context.Canceled},
	{"context.DeadlineExceeded", context.DeadlineExceeded},
	{"wrapped context.Canceled", fmt.Errorf("Get \"https://10.0.0.1/api/v1/pods\": %w", context.Canceled)},
	{"io.EOF", io.EOF},
	{"io.ErrUnexpectedEOF", io.ErrUnexpectedEOF},
	{"temporary net timeout", tempNetErr{}},
	{"status 504 timeout", apierrors.NewTimeoutError("injected", 1)},
	{"status 410 expired", apierrors.NewResourceExpired("too old resource version (injected)")},
	{"status 429 too many requests", apierrors.NewTooManyRequests("injected", 1)},
	{"status 500 internal", apierrors.NewInternalError(errors.New("injected"))},
	{"status 401 unauthorized", apierrors.NewUnauthorized("injected")},
	// the library's own sentinel as the CAUSE of a client error: a list client that reads another
	// controller's cache (a derived controller) fails like this once that controller has stopped
	{"kcache.ErrNotRunning", kcache.ErrNotRunning},
	{"wrapped kcache.ErrNotRunning", pkgerrors.Wrap(pkgerrors.WithStack(kcache.ErrNotRunning), "upstream cache")},
	// generated client-go clients return their (empty) result object together with the error
	{"plain, with an empty list object", errInjected2},
	{"status 500, with an empty list object", apierrors.NewInternalError(errors.New("injected (list object returned as well)"))},
}

var errInjected2 = errors.New("injected list failure (an empty list object is returned as well)")

// listErrWithObject: flavours whose failing List() returns a non-nil, empty list next to the error.
var listErrWithObject = map[string]bool{"plain, with an empty list object": true, "status 500, with an empty list object": true}
var errWatchInjected = errors.New("injected watch connect failure")

type listFault string

const (
	lfNone       listFault = ""
	lfError      listFault = "error"      // List returns an error
	lfNilNil     listFault = "nilnil"     // (nil, nil)
	lfNonList    listFault = "nonlist"    // an object that is not a list
	lfNoItems    listFault = "noitems"    // a meta.List without an Items field
	lfNonObjects listFault = "nonobjects" // a list whose items are not API objects
	lfMixed      listFault = "mixed"      // a list with valid objects and one item that is not an API object
	lfNilItems   listFault = "nilitems"   // a generic list whose entries are empty (no object, no raw bytes)
	lfMixedNil   listFault = "mixednil"   // valid objects and one empty entry
)

var allListFaults = []listFault{lfError, lfNilNil, lfNonList, lfNoItems, lfNonObjects, lfMixed, lfNilItems, lfMixedNil}

// noItemsList implements runtime.Object and metav1.ListInterface but has no Items.
type noItemsList struct {
	metav1.TypeMeta
	metav1.ListMeta
}

func (l *noItemsList) DeepCopyObject() runtime.Object { c := *l; return &c }

type listReq struct {
	k      int
	atCall snapshot
	reply  chan listReply
}

type listReply struct {
	snap  *snapshot
	fault listFault
}

type snapshot struct {
	rv    int
	items []kobj
}

type listCall struct {
	k          int
	start, end time.Time
	concurrent int // lists in flight when this one started (including itself)
	returned   bool
	rv         int
	fault      listFault
	cancelled  bool
}

type watchCall struct {
	at     time.Time
	rv     string
	failed bool
	sess   *wsession
}

// sessPlan: fault plan of one watch session; indexes count the log entries
// the session would deliver, from 0.
type sessPlan struct {
	closeAfter int // close the stream after this many events (-1: never)
	status     map[int]bool
	bookmark   map[int]bool
	nilobj     map[int]bool
	unknown    map[int]bool
	errobj     map[int]bool // an ERROR frame whose payload is an API object, not a Status
	drop       map[int]bool
	dup        map[int]bool
}

func noPlan() sessPlan { return sessPlan{closeAfter: -1} }

type wsession struct {
	api    *fakeAPI
	id     int
	fromRV int
	ch     chan watch.Event
	stopch chan struct{}
	once   sync.Once

	mu      sync.Mutex
	queue   []watch.Event
	closing bool
	wake    chan struct{}

	// guarded by api.mu
	pos     int // next log index
	n       int // events considered so far (plan index)
	sent    []int
	closed  bool // stream closed by the server side
	plan    sessPlan
	dropped []int
}

func (s *wsession) ResultChan() <-chan watch.Event { return s.ch }
func (s *wsession) Stop()                          { s.once.Do(func() { close(s.stopch) }) }

func (s *wsession) stopped() bool {
	select {
	case <-s.stopch:
		return true
	default:
		return false
	}
}

func (s *wsession) enqueue(evs ...watch.Event) {
	s.mu.Lock()
	s.queue = append(s.queue, evs...)
	s.mu.Unlock()
	select {
	case s.wake <- struct{}{}:
	default:
	}
}

func (s *wsession) closeStream() {
	s.mu.Lock()
	s.closing = true
	s.mu.Unlock()
	select {
	case s.wake <- struct{}{}:
	default:
	}
}

func (s *wsession) pump(ctx context.Context) {
	for {
		s.mu.Lock()
		q := s.queue
		s.queue = nil
		closing := s.closing
		s.mu.Unlock()
		for _, e := range q {
			select {
			case s.ch <- e:
			case <-s.stopch:
				return
			case <-ctx.Done():
				close(s.ch)
				return
			}
		}
		if len(q) == 0 {
			if closing {
				close(s.ch)
				return
			}
			select {
			case <-s.wake:
			case <-s.stopch:
				return
			case <-ctx.Done():
				close(s.ch)
				return
			}
		}
	}
}

type fakeAPI struct {
	mu   sync.Mutex
	rv   int
	objs map[string]kobj
	log  []logEntry

	sessions []*wsession
	plans    []sessPlan // consumed by successive successful Watch calls

	mkList func(rv string, items []kobj) runtime.Object
	newObj func(ns, name string, labels map[string]string) kobj // object factory of put (default: pods)

	// list behaviour
	gated            bool
	gatech           chan *listReq
	listFaults       map[int]listFault
	listErr          listErrFlavour // what a lfError fault returns
	blankListRV      bool           // lists are rendered with an empty collection resourceVersion
	connErr          error          // what a failing Watch() call returns (nil: errWatchInjected)
	listLatency      func(k int) time.Duration
	beforeListReturn func(k int) // called (without the lock) just before a successful List returns
	nlists           int
	inflight         int
	listCalls        []*listCall

	// watch behaviour
	watchDead  bool
	watchHang  bool // Watch() blocks until its context is cancelled
	hung       int  // Watch calls currently hanging
	connErrs   int
	holdWatch  bool
	wcallch    chan int
	releasech  chan struct{}
	watchCalls []*watchCall
	dropNext   int           // drop the next n non-marker events on live sessions (lost by the watch)
	onWatch    func(idx int) // called (without the lock) when a Watch call arrives
}

func newFakeAPI() *fakeAPI {
	return &fakeAPI{
		objs:       map[string]kobj{},
		gatech:     make(chan *listReq),
		listFaults: map[int]listFault{},
		listErr:    listErrFlavours[0],
		wcallch:    make(chan int, 4096),
		releasech:  make(chan struct{}, 4096),
		mkList:     rawList,
	}
}

// rawList: a metav1.List of raw objects — what a type-agnostic client returns.
func rawList(rv string, items []kobj) runtime.Object {
	l := &metav1.List{ListMeta: metav1.ListMeta{ResourceVersion: rv}}
	for _, o := range items {
		l.Items = append(l.Items, runtime.RawExtension{Object: o})
	}
	return l
}

func (a *fakeAPI) snapshotLocked() snapshot {
	s := snapshot{rv: a.rv}
	for _, o := range a.objs {
		s.items = append(s.items, o)
	}
	return s
}

func (a *fakeAPI) snapshotNow() snapshot {
	a.mu.Lock()
	defer a.mu.Unlock()
	return a.snapshotLocked()
}

func (a *fakeAPI) render(s snapshot) runtime.Object {
	if a.blankListRV {
		// a collection without a resourceVersion of its own (client-go's fake clientsets answer like
		// this): kcache accepts it - the items carry their versions - and watches from ""
		return a.mkList("", s.items)
	}
	return a.mkList(strconv.Itoa(s.rv), s.items)
}

func (a *fakeAPI) faultResult(f listFault) (runtime.Object, error) {
	switch f {
	case lfError:
		if listErrWithObject[a.listErr.name] {
			return &corev1.PodList{}, a.listErr.err
		}
		return nil, a.listErr.err
	case lfNilNil:
		return nil, nil
	case lfNonList:
		return &corev1.Pod{ObjectMeta: metav1.ObjectMeta{Name: "not-a-list", ResourceVersion: "1"}}, nil
	case lfNoItems:
		return &noItemsList{ListMeta: metav1.ListMeta{ResourceVersion: "1"}}, nil
	case lfNonObjects:
		return &metav1.List{ListMeta: metav1.ListMeta{ResourceVersion: "1"}, Items: []runtime.RawExtension{{Object: &runtime.Unknown{}}}}, nil
	case lfNilItems:
		return &metav1.List{ListMeta: metav1.ListMeta{ResourceVersion: "1"}, Items: []runtime.RawExtension{{}, {}}}, nil
	case lfMixedNil:
		return &metav1.List{ListMeta: metav1.ListMeta{ResourceVersion: "1"}, Items: []runtime.RawExtension{
			{Object: &corev1.Pod{ObjectMeta: metav1.ObjectMeta{Namespace: "a", Name: "valid1", ResourceVersion: "1"}}},
			{},
		}}, nil
	case lfMixed:
		return &metav1.List{ListMeta: metav1.ListMeta{ResourceVersion: "1"}, Items: []runtime.RawExtension{
			{Object: &corev1.Pod{ObjectMeta: metav1.ObjectMeta{Namespace: "a", Name: "valid1", ResourceVersion: "1"}}},
			{Object: &runtime.Unknown{}},
			{Object: &corev1.Pod{ObjectMeta: metav1.ObjectMeta{Namespace: "a", Name: "valid2", ResourceVersion: "1"}}},
		}}, nil
	}
	panic("no fault")
}

func (a *fakeAPI) List(ctx context.Context, _ metav1.ListOptions) (runtime.Object, error) {
	a.mu.Lock()
	a.nlists++
	k := a.nlists
	a.inflight++
	call := &listCall{k: k, start: time.Now(), concurrent: a.inflight}
	a.listCalls = append(a.listCalls, call)
	gated := a.gated
	atCall := a.snapshotLocked()
	fault := a.listFaults[k]
	var latency time.Duration
	if a.listLatency != nil {
		latency = a.listLatency(k)
	}
	a.mu.Unlock()

	finish := func(rv int, f listFault, cancelled bool) {
		a.mu.Lock()
		a.inflight--
		call.end = time.Now()
		call.returned = true
		call.rv = rv
		call.fault = f
		call.cancelled = cancelled
		a.mu.Unlock()
	}

	snap := atCall
	if gated {
		req := &listReq{k: k, atCall: atCall, reply: make(chan listReply, 1)}
		select {
		case a.gatech <- req:
		case <-ctx.Done():
			finish(0, lfNone, true)
			return nil, ctx.Err()
		}
		select {
		case r := <-req.reply:
			if r.fault != lfNone {
				fault = r.fault
			}
			if r.snap != nil {
				snap = *r.snap
			}
		case <-ctx.Done():
			finish(0, lfNone, true)
			return nil, ctx.Err()
		}
	} else if latency > 0 {
		tm := time.NewTimer(latency)
		select {
		case <-tm.C:
		case <-ctx.Done():
			tm.Stop()
			finish(0, lfNone, true)
			return nil, ctx.Err()
		}
	}
	if fault != lfNone {
		finish(0, fault, false)
		return a.faultResult(fault)
	}
	if hook := a.beforeListReturn; hook != nil {
		hook(k)
	}
	finish(snap.rv, lfNone, false)
	return a.render(snap), nil
}

// awaitList waits for the next gated List call.
func (a *fakeAPI) awaitList(d time.Duration) *listReq {
	select {
	case r := <-a.gatech:
		return r
	case <-time.After(d):
		return nil
	}
}

// awaitListWedge waits for the next gated List call with the wedge bound
// (10 s, confirmed once with 25 s more; 2 s once a wedge has been confirmed
// in this process).
func (a *fakeAPI) awaitListWedge() *listReq {
	first := wedgeBound
	if atomic.LoadInt32(&wedgeSeen) != 0 {
		first = wedgeAfter
	}
	if r := a.awaitList(first); r != nil {
		return r
	}
	if atomic.LoadInt32(&wedgeSeen) != 0 {
		return nil
	}
	if r := a.awaitList(wedgeConfirm); r != nil {
		statSlow("harness")
		return r
	}
	atomic.StoreInt32(&wedgeSeen, 1)
	return nil
}

// release lets a gated List return: with the snapshot taken when it was
// called, or with a snapshot taken now.
func (r *listReq) release(a *fakeAPI, atCall bool) snapshot {
	s := r.atCall
	if !atCall {
		s = a.snapshotNow()
	}
	r.reply <- listReply{snap: &s}
	return s
}

func (r *listReq) fail(f listFault) { r.reply <- listReply{fault: f} }

func (a *fakeAPI) Watch(ctx context.Context, o metav1.ListOptions) (watch.Interface, error) {
	a.mu.Lock()
	idx := len(a.watchCalls)
	wc := &watchCall{at: time.Now(), rv: o.ResourceVersion}
	a.watchCalls = append(a.watchCalls, wc)
	hold := a.holdWatch
	onWatch := a.onWatch
	a.mu.Unlock()
	if onWatch != nil {
		onWatch(idx)
	}
	if hold {
		a.wcallch <- idx
		select {
		case <-a.releasech:
		case <-ctx.Done():
			a.mu.Lock()
			wc.failed = true
			a.mu.Unlock()
			return nil, ctx.Err()
		}
	}
	if err := ctx.Err(); err != nil {
		a.mu.Lock()
		wc.failed = true
		a.mu.Unlock()
		return nil, err
	}
	a.mu.Lock()
	defer a.mu.Unlock()
	if a.watchDead {
		wc.failed = true
		return nil, a.watchErr()
	}
	if a.watchHang {
		// the connection attempt hangs (a black-holed API server): the call returns when, and only
		// when, its context is cancelled - the one thing C12's premise asks of a client
		wc.failed = true
		a.hung++
		a.mu.Unlock()
		<-ctx.Done()
		a.mu.Lock()
		a.hung--
		return nil, ctx.Err()
	}
	if a.connErrs > 0 {
		a.connErrs--
		wc.failed = true
		return nil, a.watchErr()
	}
	from, _ := strconv.Atoi(o.ResourceVersion)
	s := &wsession{api: a, id: len(a.sessions), fromRV: from, ch: make(chan watch.Event, 16), stopch: make(chan struct{}), wake: make(chan struct{}, 1), plan: noPlan()}
	if len(a.plans) > 0 {
		s.plan = a.plans[0]
		a.plans = a.plans[1:]
	}
	s.pos = len(a.log)
	for i, e := range a.log {
		if e.rv > from {
			s.pos = i
			break
		}
	}
	a.sessions = append(a.sessions, s)
	wc.sess = s
	go s.pump(ctx)
	a.flushLocked()
	return s, nil
}

func (a *fakeAPI) flushLocked() {
	for _, s := range a.sessions {
		if s.closed || s.stopped() {
			continue
		}
		for s.pos < len(a.log) {
			if s.plan.closeAfter >= 0 && s.n >= s.plan.closeAfter {
				s.closed = true
				s.closeStream()
				break
			}
			e := a.log[s.pos]
			i := s.n
			s.pos++
			s.n++
			var out []watch.Event
			if s.plan.status[i] {
				out = append(out, watch.Event{Type: watch.Error, Object: &metav1.Status{Status: "Failure", Message: "injected status frame", Code: 500}})
			}
			if s.plan.bookmark[i] {
				out = append(out, watch.Event{Type: watch.Bookmark, Object: &corev1.Pod{ObjectMeta: metav1.ObjectMeta{ResourceVersion: strconv.Itoa(e.rv - 1)}}})
			}
			if s.plan.unknown[i] {
				out = append(out, watch.Event{Type: watch.EventType("WEIRD"), Object: e.obj})
			}
			if s.plan.errobj[i] {
				out = append(out, watch.Event{Type: watch.Error, Object: e.obj})
			}
			marker := e.obj.GetNamespace() == markerNS
			if !marker && (s.plan.drop[i] || a.dropNext > 0) {
				if !s.plan.drop[i] {
					a.dropNext--
				}
				s.dropped = append(s.dropped, e.rv)
				if len(out) > 0 {
					s.enqueue(out...)
				}
				continue
			}
			out = append(out, watch.Event{Type: e.typ, Object: e.obj})
			if s.plan.dup[i] {
				out = append(out, watch.Event{Type: e.typ, Object: e.obj})
			}
			s.sent = append(s.sent, e.rv)
			s.enqueue(out...)
			if s.plan.nilobj[i] {
				// a frame without an object ends the session on the client side
				s.enqueue(watch.Event{Type: watch.Modified, Object: nil})
			}
		}
		if !s.closed && s.plan.closeAfter >= 0 && s.n >= s.plan.closeAfter && s.pos >= len(a.log) {
			// close right after the last planned event ("close immediately after a burst")
			s.closed = true
			s.closeStream()
		}
	}
}

// apply records a server-side change and publishes it on the watch streams.
func (a *fakeAPI) apply(typ watch.EventType, obj kobj) int {
	a.mu.Lock()
	defer a.mu.Unlock()
	a.rv++
	obj.SetResourceVersion(strconv.Itoa(a.rv))
	k := obj.GetNamespace() + "/" + obj.GetName()
	if typ == watch.Deleted {
		delete(a.objs, k)
	} else {
		a.objs[k] = obj
	}
	a.log = append(a.log, logEntry{a.rv, typ, obj})
	a.flushLocked()
	return a.rv
}

// put creates or modifies ns/name with the given labels; returns the new rv.
func (a *fakeAPI) put(ns, name string, labels map[string]string) int {
	a.mu.Lock()
	_, ex := a.objs[ns+"/"+name]
	a.mu.Unlock()
	typ := watch.Added
	if ex {
		typ = watch.Modified
	}
	if a.newObj != nil {
		return a.apply(typ, a.newObj(ns, name, labels))
	}
	return a.apply(typ, mkPod(ns, name, "", labels))
}

func (a *fakeAPI) putObj(obj kobj) int {
	a.mu.Lock()
	_, ex := a.objs[obj.GetNamespace()+"/"+obj.GetName()]
	a.mu.Unlock()
	typ := watch.Added
	if ex {
		typ = watch.Modified
	}
	return a.apply(typ, obj)
}

func (a *fakeAPI) del(ns, name string) (int, bool) {
	a.mu.Lock()
	cur, ex := a.objs[ns+"/"+name]
	a.mu.Unlock()
	if !ex {
		return 0, false
	}
	c := cur.DeepCopyObject().(kobj)
	return a.apply(watch.Deleted, c), true
}

func (a *fakeAPI) has(ns, name string) bool {
	a.mu.Lock()
	defer a.mu.Unlock()
	_, ok := a.objs[ns+"/"+name]
	return ok
}

// state returns the current objects (marker namespace excluded).
func (a *fakeAPI) state() []metav1.Object {
	a.mu.Lock()
	defer a.mu.Unlock()
	out := make([]metav1.Object, 0, len(a.objs))
	for _, o := range a.objs {
		if o.GetNamespace() == markerNS {
			continue
		}
		out = append(out, o)
	}
	return out
}

// closeSessions closes every live watch stream from the server side.
func (a *fakeAPI) closeSessions() int {
	a.mu.Lock()
	defer a.mu.Unlock()
	n := 0
	for _, s := range a.sessions {
		if !s.closed && !s.stopped() {
			s.closed = true
			s.closeStream()
			n++
		}
	}
	return n
}

// injectFrames puts a non-object frame on every live watch stream: a Status
// error frame (e.g. 410 Gone), a Bookmark, or a frame of an unknown type.
func (a *fakeAPI) injectFrames(kind int) int {
	a.mu.Lock()
	defer a.mu.Unlock()
	n := 0
	for _, s := range a.sessions {
		if s.closed || s.stopped() {
			continue
		}
		switch kind % 4 {
		case 3:
			s.enqueue(watch.Event{Type: watch.Error, Object: &corev1.Pod{ObjectMeta: metav1.ObjectMeta{Namespace: "a", Name: "errpayload", ResourceVersion: strconv.Itoa(a.rv)}}})
		case 0:
			s.enqueue(watch.Event{Type: watch.Error, Object: &metav1.Status{Status: "Failure", Reason: metav1.StatusReasonGone, Message: "injected status frame", Code: 410}})
		case 1:
			s.enqueue(watch.Event{Type: watch.Bookmark, Object: &corev1.Pod{ObjectMeta: metav1.ObjectMeta{ResourceVersion: strconv.Itoa(a.rv)}}})
		case 2:
			s.enqueue(watch.Event{Type: watch.EventType("WEIRD"), Object: &corev1.Pod{ObjectMeta: metav1.ObjectMeta{Namespace: "a", Name: "weird", ResourceVersion: strconv.Itoa(a.rv)}}})
		}
		n++
	}
	return n
}

func (a *fakeAPI) liveSessions() int {
	a.mu.Lock()
	defer a.mu.Unlock()
	n := 0
	for _, s := range a.sessions {
		if !s.closed && !s.stopped() {
			n++
		}
	}
	return n
}

func (a *fakeAPI) rvNow() int {
	a.mu.Lock()
	defer a.mu.Unlock()
	return a.rv
}

func (a *fakeAPI) listCount() int {
	a.mu.Lock()
	defer a.mu.Unlock()
	return a.nlists
}

func (a *fakeAPI) watchRVs() []string {
	a.mu.Lock()
	defer a.mu.Unlock()
	out := make([]string, len(a.watchCalls))
	for i, w := range a.watchCalls {
		out[i] = w.rv
	}
	return out
}

func (a *fakeAPI) String() string {
	a.mu.Lock()
	defer a.mu.Unlock()
	return fmt.Sprintf("fakeAPI{rv=%d objs=%d lists=%d watches=%d}", a.rv, len(a.objs), a.nlists, len(a.watchCalls))
}

func watchEventNil() watch.Event { return watch.Event{Type: watch.Modified, Object: nil} }

func (a *fakeAPI) watchCount() int {
	a.mu.Lock()
	defer a.mu.Unlock()
	return len(a.watchCalls)
}

// watchErr: the error of a failing Watch() call (called with a.mu held).
func (a *fakeAPI) watchErr() error {
	if a.connErr != nil {
		return a.connErr
	}
	return errWatchInjected
}

// watchErrFlavours: what a failing Watch() call may return; like a failing
// List (listErrFlavours) these are all "the watch could not be established",
// and none of them may stop the controller (C14).
var watchErrFlavours = []listErrFlavour{
	{"plain", errWatchInjected},
	{"status 410 expired", apierrors.NewResourceExpired("too old resource version: 5 (1207)")},
	{"status 410 gone", apierrors.NewGone("injected")},
	{"status 504 timeout", apierrors.NewTimeoutError("injected", 1)},
	{"status 401 unauthorized", apierrors.NewUnauthorized("injected")},
	{"context.DeadlineExceeded", context.DeadlineExceeded},
	{"io.EOF", io.EOF},
	{"temporary net timeout", tempNetErr{}},
}

// bumpRV advances the server's resourceVersion without an event on this
// collection (as a change to another collection of the same server does).
func (a *fakeAPI) bumpRV() {
	a.mu.Lock()
	a.rv++
	a.mu.Unlock()
}

func (a *fakeAPI) hungCount() int {
	a.mu.Lock()
	defer a.mu.Unlock()
	return a.hung
}
