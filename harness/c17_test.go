//go:build verif

package verifharness

// C17 — filter equality is sound.
//
// Oracle: FiltersEqual(a,b) or a.Equals(b)  =>  for every object of the
// universe a.Accept(o) == b.Accept(o)  (real Accept on both sides: soundness
// needs no model).  Plus: a comparable term (no FN inside) rebuilt from equal
// arguments compares equal; workload filters compare equal under every
// permutation of their (distinctly named) sources; nil arguments never panic
// and only (nil,nil) is equal.  Incompleteness (semantically equal but
// reported unequal) is counted, never failed.

import (
	"fmt"
	"reflect"
	"testing"

	"github.com/boz/kcache/filter"
	"github.com/boz/kcache/nsname"
	metav1 "k8s.io/apimachinery/pkg/apis/meta/v1"
	"pgregory.net/rapid"
)

var c17Universe = objectUniverse(uniNamespaces, uniNames, allLabelMaps(uniKeys, uniValues), true)

type bitset []uint64

func acceptBits(f filter.Filter, objs []metav1.Object) bitset {
	b := make(bitset, (len(objs)+63)/64)
	for i, o := range objs {
		if f.Accept(o) {
			b[i/64] |= 1 << uint(i%64)
		}
	}
	return b
}

func (b bitset) firstDiff(c bitset) int {
	for i := range b {
		if x := b[i] ^ c[i]; x != 0 {
			for j := 0; j < 64; j++ {
				if x&(1<<uint(j)) != 0 {
					return i*64 + j
				}
			}
		}
	}
	return -1
}

// reportedEqual: what the library says about (a,b), through both entry points.
func reportedEqual(a, b filter.Filter) (bool, bool) {
	eq := filter.FiltersEqual(a, b)
	eqm := false
	if ca, ok := a.(filter.ComparableFilter); ok {
		eqm = ca.Equals(b)
	}
	return eq, eqm
}

func c17CheckPair(ta, tb *term, fa, fb filter.Filter, ba, bb bitset) (equal bool, semEqual bool, msg string) {
	eq, eqm := reportedEqual(fa, fb)
	d := ba.firstDiff(bb)
	semEqual = d < 0
	if (eq || eqm) && d >= 0 {
		o := c17Universe[d]
		return true, false, fmt.Sprintf("filters compare equal (FiltersEqual=%v Equals=%v) but disagree on %s: a=%s accepts=%v, b=%s accepts=%v",
			eq, eqm, describeObj(o), ta, fa.Accept(o), tb, fb.Accept(o))
	}
	return eq || eqm, semEqual, ""
}

func c17Rebuild(tm *term) string {
	if tm.hasFN() {
		return ""
	}
	f1, f2 := tm.build(), tm.build()
	if !filter.FiltersEqual(f1, f2) {
		return fmt.Sprintf("comparable filter built twice from the same arguments compares unequal: %s", tm)
	}
	if c, ok := f1.(filter.ComparableFilter); !ok || !c.Equals(f2) {
		return fmt.Sprintf("comparable filter built twice from the same arguments: Equals is false: %s", tm)
	}
	// ... and from the very same argument values (one slice, one map, one set of source objects)
	g1, g2 := tm.buildTwice()
	if !filter.FiltersEqual(g1, g2) || !filter.FiltersEqual(g2, g1) || !filter.FiltersEqual(f1, g2) {
		return fmt.Sprintf("comparable filter built twice from the same argument values (the same slice / map / objects passed twice) compares unequal: %s", tm)
	}
	return ""
}

// c17SharedPrefix: And/Or built over ONE child slice and over each proper prefix of it (what a
// caller gets who grows a list with append and builds the filter again: the variadic constructors
// keep the slice they are given).  Same backing array, different filters.
func c17SharedPrefix(tm *term) string {
	if (tm.Kind != tAnd && tm.Kind != tOr) || len(tm.Children) == 0 {
		return ""
	}
	cs := make([]filter.Filter, len(tm.Children))
	for i, c := range tm.Children {
		cs[i] = c.build()
	}
	mk := filter.And
	if tm.Kind == tOr {
		mk = filter.Or
	}
	full := mk(cs...)
	bfull := acceptBits(full, c17Universe)
	for k := 0; k < len(cs); k++ {
		pt := &term{Kind: tm.Kind, Children: tm.Children[:k]}
		pf := mk(cs[:k]...)
		bp := acceptBits(pf, c17Universe)
		if _, _, msg := c17CheckPair(tm, pt, full, pf, bfull, bp); msg != "" {
			return "child lists sharing one backing array: " + msg
		}
		if _, _, msg := c17CheckPair(pt, tm, pf, full, bp, bfull); msg != "" {
			return "child lists sharing one backing array: " + msg
		}
	}
	return ""
}

func TestC17_Random(t *testing.T) { rapid.Check(t, c17RandomProp) }

// FuzzC17: the same property under Go's coverage-guided fuzzer (thorough tier).
func FuzzC17(f *testing.F) { f.Fuzz(rapid.MakeFuzz(c17RandomProp)) }

func c17RandomProp(t *rapid.T) {
	cfg := termCfg{typed: true, fn: true}
	{
		depth := rapid.IntRange(0, 3).Draw(t, "depth")
		ta := genTerm(cfg, depth).Draw(t, "a")
		var tb *term
		if rapid.IntRange(0, 4).Draw(t, "independent") == 0 {
			tb = genTerm(cfg, depth).Draw(t, "b")
		} else {
			tb = mutateTerm(t, cfg, ta)
		}
		fa, fb := ta.build(), tb.build()
		ba, bb := acceptBits(fa, c17Universe), acceptBits(fb, c17Universe)
		equal, semEqual, msg := c17CheckPair(ta, tb, fa, fb, ba, bb)
		if msg != "" {
			t.Fatalf("C17 violation: %s", msg)
		}
		if msg := c17Rebuild(ta); msg != "" {
			t.Fatalf("C17 violation: %s", msg)
		}
		if msg := c17SharedPrefix(ta); msg != "" {
			t.Fatalf("C17 violation: %s", msg)
		}
		labels := []string{fmt.Sprintf("depth%d", ta.depth())}
		// permutation of workload sources (distinct namespace/name by construction)
		if (ta.Kind == tWorkloadPods || ta.Kind == tIngressServices) && len(ta.Sources) > 1 {
			tp := cloneTerm(ta)
			tp.Sources = rapid.Permutation(tp.Sources).Draw(t, "perm")
			if !filter.FiltersEqual(ta.build(), tp.build()) || !filter.FiltersEqual(tp.build(), ta.build()) {
				t.Fatalf("C17 violation: workload filter compares unequal under a permutation of its sources: %s vs %s", ta, tp)
			}
			labels = append(labels, "workload_permutation")
		}
		// nil handling
		if filter.FiltersEqual(nil, fa) || filter.FiltersEqual(fa, nil) || !filter.FiltersEqual(nil, nil) {
			t.Fatalf("C17 violation: FiltersEqual with nil arguments is wrong for %s", ta)
		}
		if equal {
			labels = append(labels, "reported_equal")
		}
		if semEqual && !equal {
			labels = append(labels, "semantically_equal_reported_unequal(incomplete,allowed)")
		}
		s := ta.String() + " ~ " + tb.String()
		statCase("C17", hashString(s), equal, func() interface{} {
			return map[string]interface{}{"a": ta.String(), "b": tb.String(), "reported_equal": equal, "objects_compared": len(c17Universe)}
		}, labels...)
	}
}

// c17Atoms: C18's atoms plus the typed filters' atoms.
func c17Atoms() []*term {
	atoms := c18Atoms()
	set := func(kv ...string) map[string]string {
		m := map[string]string{}
		for i := 0; i+1 < len(kv); i += 2 {
			m[kv[i]] = kv[i+1]
		}
		return m
	}
	atoms = append(atoms,
		&term{Kind: tFN, FN: 2},
		&term{Kind: tNode}, &term{Kind: tNode, Names: []string{"n1"}}, &term{Kind: tNode, Names: []string{"n1", "n2"}}, &term{Kind: tNode, Names: []string{"n2", "n1"}}, &term{Kind: tNode, Names: []string{""}},
		&term{Kind: tInvolved, Inv: [3]string{"Pod", "a", "p"}}, &term{Kind: tInvolved, Inv: [3]string{"Service", "a", "p"}}, &term{Kind: tInvolved, Inv: [3]string{"Pod", "b", "p"}}, &term{Kind: tInvolved, Inv: [3]string{"Pod", "a", "q"}}, &term{Kind: tInvolved, Inv: [3]string{"", "a", "p"}}, &term{Kind: tInvolved, Inv: [3]string{"", "b", "p"}}, &term{Kind: tInvolved, Inv: [3]string{"Pod", "", "p"}}, &term{Kind: tInvolved, Inv: [3]string{"Pod", "a", ""}},
		&term{Kind: tSelectorMatch}, &term{Kind: tSelectorMatch, Set: set()}, &term{Kind: tSelectorMatch, Set: set("x", "1")}, &term{Kind: tSelectorMatch, Set: set("x", "1", "y", "2")}, &term{Kind: tSelectorMatch, Set: set("x", "2")},
	)
	nilsel := selSpec{Nil: true}
	// (every revision of one source carries the same UID and generation: equality must not lean on them)
	w := func(ns, name string, sel selSpec, tpl map[string]string) workload {
		return workload{NS: ns, Name: name, UID: "uid-" + ns + "-" + name, Gen: 1, Sel: sel, Template: tpl}
	}
	ws := func(ns, name string, sel map[string]string, has bool) workload {
		return workload{NS: ns, Name: name, UID: "uid-" + ns + "-" + name, Gen: 1, Sel: nilsel, SetSel: sel, HasSet: has}
	}
	selx1 := selSpec{MatchLabels: set("x", "1")}
	selIn := selSpec{Exprs: []selReq{{Key: "x", Op: "In", Values: []string{"1", "2"}}}}
	for _, kind := range workloadKinds {
		switch kind {
		case "service", "replicationcontroller":
			atoms = append(atoms,
				&term{Kind: tWorkloadPods, WKind: kind},
				&term{Kind: tWorkloadPods, WKind: kind, Sources: []workload{ws("a", "w1", set("x", "1"), true)}},
				&term{Kind: tWorkloadPods, WKind: kind, Sources: []workload{ws("b", "w1", set("x", "1"), true)}},
				&term{Kind: tWorkloadPods, WKind: kind, Sources: []workload{ws("a", "w1", nil, false)}},
				&term{Kind: tWorkloadPods, WKind: kind, Sources: []workload{ws("a", "w1", set("x", "1"), true), ws("b", "w2", set("y", "2"), true)}},
				&term{Kind: tWorkloadPods, WKind: kind, Sources: []workload{ws("b", "w2", set("y", "2"), true), ws("a", "w1", set("x", "1"), true)}},
			)
		default:
			atoms = append(atoms,
				&term{Kind: tWorkloadPods, WKind: kind},
				&term{Kind: tWorkloadPods, WKind: kind, Sources: []workload{w("a", "w1", selx1, nil)}},
				&term{Kind: tWorkloadPods, WKind: kind, Sources: []workload{w("b", "w1", selx1, nil)}},
				&term{Kind: tWorkloadPods, WKind: kind, Sources: []workload{w("a", "w1", nilsel, set("x", "1"))}},
				&term{Kind: tWorkloadPods, WKind: kind, Sources: []workload{w("a", "w1", selIn, nil)}},
				&term{Kind: tWorkloadPods, WKind: kind, Sources: []workload{w("a", "w1", selIn, nil), w("b", "w2", selx1, nil)}},
				&term{Kind: tWorkloadPods, WKind: kind, Sources: []workload{w("b", "w2", selx1, nil), w("a", "w1", selIn, nil)}},
			)
		}
	}
	p, q := "p", "q"
	atoms = append(atoms,
		&term{Kind: tIngressServices, WKind: "ingress"},
		&term{Kind: tIngressServices, WKind: "ingress", Sources: []workload{{NS: "a", Name: "i1", Sel: nilsel, DefaultBackend: &p}}},
		&term{Kind: tIngressServices, WKind: "ingress", Sources: []workload{{NS: "a", Name: "i1", Sel: nilsel, Paths: [][]string{{"p"}}}}},
		&term{Kind: tIngressServices, WKind: "ingress", Sources: []workload{{NS: "a", Name: "i1", Sel: nilsel, DefaultBackend: &q, Paths: [][]string{{"p", "r"}}}, {NS: "b", Name: "i2", Sel: nilsel, DefaultBackend: &p}}},
		&term{Kind: tIngressServices, WKind: "ingress", Sources: []workload{{NS: "b", Name: "i2", Sel: nilsel, DefaultBackend: &p}, {NS: "a", Name: "i1", Sel: nilsel, DefaultBackend: &q, Paths: [][]string{{"p", "r"}}}}},
	)
	return atoms
}

// TestC17_Enum: all ordered pairs of terms of depth <= 1.  Quick: unary
// composites over all atoms plus binary And/Or over a 14-atom subset;
// thorough: binary And/Or over all atoms, pairs sharded.
func TestC17_Enum(t *testing.T) {
	atoms := c17Atoms()
	// the generator's claim about its own FN predicates (recorded in the evidence, not an oracle)
	shared := true
	for i := 1; i < len(fnPreds); i++ {
		shared = shared && reflect.ValueOf(fnPreds[i]).Pointer() == reflect.ValueOf(fnPreds[0]).Pointer()
	}
	if shared {
		statLabel("C17", "fn_predicates_are_closures_of_one_literal_sharing_a_code_pointer", 1)
	}
	var terms []*term
	terms = append(terms, atoms...)
	if tierThorough() {
		terms = append(terms, composeOver(atoms, true)...)
	} else {
		terms = append(terms, composeOver(atoms, false)...)
		var sub []*term
		for i, a := range atoms {
			if i%7 == 0 || a.Kind == tNull || a.Kind == tAll {
				sub = append(sub, a)
			}
		}
		for _, k := range []termKind{tAnd, tOr} {
			for _, x := range sub {
				for _, y := range sub {
					terms = append(terms, &term{Kind: k, Children: []*term{x, y}})
				}
			}
		}
	}
	filters := make([]filter.Filter, len(terms))
	filters2 := make([]filter.Filter, len(terms)) // an independently rebuilt copy for the b side
	bits := make([]bitset, len(terms))
	for i, tm := range terms {
		filters[i] = tm.build()
		filters2[i] = tm.build()
		bits[i] = acceptBits(filters[i], c17Universe)
		if msg := c17Rebuild(tm); msg != "" {
			writeEnumReplay(t, "C17", "TestC17_Enum", tm.String(), msg)
			t.Fatalf("C17 violation: %s", msg)
		}
		if msg := c17SharedPrefix(tm); msg != "" {
			writeEnumReplay(t, "C17", "TestC17_Enum", tm.String(), msg)
			t.Fatalf("C17 violation: %s", msg)
		}
	}
	shard, nshards := shardOf()
	var pairs, equalPairs, incomplete int64
	for i := range terms {
		if i%nshards != shard {
			continue
		}
		for j := range terms {
			equal, semEqual, msg := c17CheckPair(terms[i], terms[j], filters[i], filters2[j], bits[i], bits[j])
			if msg != "" {
				writeEnumReplay(t, "C17", "TestC17_Enum", terms[i].String()+" ~ "+terms[j].String(), msg)
				t.Fatalf("C17 violation: %s", msg)
			}
			pairs++
			if equal {
				equalPairs++
				a, b := terms[i], terms[j]
				statCase("C17", hashString(a.String()+" ~ "+b.String()), true, func() interface{} {
					return map[string]interface{}{"a": a.String(), "b": b.String(), "reported_equal": true, "mode": "enumerated", "objects_compared": len(c17Universe)}
				}, "enum_reported_equal")
			} else if semEqual {
				incomplete++
			}
		}
	}
	statMu.Lock()
	p := statFor("C17")
	p.Evaluations += pairs - equalPairs
	p.Labels["enum_pairs"] += pairs
	p.Labels["enum_semantically_equal_reported_unequal(incomplete,allowed)"] += incomplete
	statMu.Unlock()
	if shard == 0 {
		statExhaustive("C17", fmt.Sprintf("all ordered pairs of %d terms of depth<=1 over %d atoms (%d objects each)", len(terms), len(atoms), len(c17Universe)))
	}
}

// TestC17_LabelSets: every filter constructor that takes a label map, built
// over every label map of the universe (keys x,y; values 1, 2 and the empty
// string; plus nil), bare and under Not/And/Or; all ordered pairs.  The maps
// differ pairwise in exactly the ways a hand-rolled map comparison gets
// wrong: a key absent vs present-with-empty-value, same size with different
// keys, subset/superset.
func TestC17_LabelSets(t *testing.T) {
	maps := allLabelMaps(uniKeys, uniValues)
	var leaves []*term
	nilsel := selSpec{Nil: true}
	for _, m := range maps {
		leaves = append(leaves, &term{Kind: tLabels, Set: copySet(m)}, &term{Kind: tSelectorMatch, Set: copySet(m)})
		leaves = append(leaves, &term{Kind: tLabelSelector, Sel: selSpec{MatchLabels: copySet(m)}})
		for _, kind := range workloadKinds {
			switch kind {
			case "service", "replicationcontroller":
				leaves = append(leaves, &term{Kind: tWorkloadPods, WKind: kind, Sources: []workload{{NS: "a", Name: "w1", Sel: nilsel, SetSel: copySet(m), HasSet: m != nil}}})
			default:
				leaves = append(leaves, &term{Kind: tWorkloadPods, WKind: kind, Sources: []workload{{NS: "a", Name: "w1", Sel: selSpec{MatchLabels: copySet(m)}}}})
				if kind == "deployment" || kind == "daemonset" {
					leaves = append(leaves, &term{Kind: tWorkloadPods, WKind: kind, Sources: []workload{{NS: "a", Name: "w1", Sel: nilsel, Template: copySet(m)}}})
				}
			}
		}
	}
	terms := append([]*term{}, leaves...)
	for _, x := range leaves {
		terms = append(terms, &term{Kind: tNot, Children: []*term{x}})
	}
	for i, x := range leaves {
		if i%3 == 0 {
			terms = append(terms, &term{Kind: tOr, Children: []*term{x, {Kind: tNull}}}, &term{Kind: tAnd, Children: []*term{{Kind: tAll}, x}})
		}
	}
	filters := make([]filter.Filter, len(terms))
	filters2 := make([]filter.Filter, len(terms))
	bits := make([]bitset, len(terms))
	for i, tm := range terms {
		filters[i], filters2[i] = tm.build(), tm.build()
		bits[i] = acceptBits(filters[i], c17Universe)
		if msg := c17Rebuild(tm); msg != "" {
			writeEnumReplay(t, "C17", "TestC17_LabelSets", tm.String(), msg)
			t.Fatalf("C17 violation: %s", msg)
		}
	}
	shard, nshards := shardOf()
	var pairs, equalPairs int64
	for i := range terms {
		if i%nshards != shard {
			continue
		}
		for j := range terms {
			equal, _, msg := c17CheckPair(terms[i], terms[j], filters[i], filters2[j], bits[i], bits[j])
			if msg != "" {
				writeEnumReplay(t, "C17", "TestC17_LabelSets", terms[i].String()+" ~ "+terms[j].String(), msg)
				t.Fatalf("C17 violation: %s", msg)
			}
			pairs++
			if equal {
				equalPairs++
				a, b := terms[i], terms[j]
				statCase("C17", hashString("ls:"+a.String()+" ~ "+b.String()), true, func() interface{} {
					return map[string]interface{}{"a": a.String(), "b": b.String(), "reported_equal": true, "mode": "label-set enumeration", "objects_compared": len(c17Universe)}
				}, "labelsets_reported_equal")
			}
		}
	}
	statMu.Lock()
	p := statFor("C17")
	p.Evaluations += pairs - equalPairs
	p.Labels["labelsets_pairs"] += pairs
	statMu.Unlock()
	if shard == 0 {
		statExhaustive("C17", fmt.Sprintf("all ordered pairs of %d label-map-taking filters (every constructor x %d label maps incl. empty values, bare and wrapped)", len(terms), len(maps)))
	}
}

// TestC17_NSNameSets: every NSName filter over id lists of length <= 2 drawn
// from {a/, b/, a/p, a/q, b/p, /p} (namespace-only, full and name-only
// entries), bare and under Not/And/Or; all ordered pairs.
func TestC17_NSNameSets(t *testing.T) {
	ids := []nsname.NSName{nsname.New("a", ""), nsname.New("b", ""), nsname.New("a", "p"), nsname.New("a", "q"), nsname.New("b", "p"), nsname.New("", "p")}
	leaves := []*term{{Kind: tNSName}}
	for _, x := range ids {
		leaves = append(leaves, &term{Kind: tNSName, IDs: []nsname.NSName{x}})
		for _, y := range ids {
			leaves = append(leaves, &term{Kind: tNSName, IDs: []nsname.NSName{x, y}})
		}
	}
	terms := append([]*term{}, leaves...)
	for i, x := range leaves {
		terms = append(terms, &term{Kind: tNot, Children: []*term{x}})
		if i%4 == 0 {
			terms = append(terms, &term{Kind: tOr, Children: []*term{x, {Kind: tAll}}}, &term{Kind: tAnd, Children: []*term{{Kind: tNull}, x}})
		}
	}
	filters := make([]filter.Filter, len(terms))
	filters2 := make([]filter.Filter, len(terms))
	bits := make([]bitset, len(terms))
	for i, tm := range terms {
		filters[i], filters2[i] = tm.build(), tm.build()
		bits[i] = acceptBits(filters[i], c17Universe)
		if msg := c17Rebuild(tm); msg != "" {
			writeEnumReplay(t, "C17", "TestC17_NSNameSets", tm.String(), msg)
			t.Fatalf("C17 violation: %s", msg)
		}
	}
	shard, nshards := shardOf()
	var pairs, equalPairs int64
	for i := range terms {
		if i%nshards != shard {
			continue
		}
		for j := range terms {
			equal, _, msg := c17CheckPair(terms[i], terms[j], filters[i], filters2[j], bits[i], bits[j])
			if msg != "" {
				writeEnumReplay(t, "C17", "TestC17_NSNameSets", terms[i].String()+" ~ "+terms[j].String(), msg)
				t.Fatalf("C17 violation: %s", msg)
			}
			pairs++
			if equal {
				equalPairs++
				a, b := terms[i], terms[j]
				statCase("C17", hashString("ns:"+a.String()+" ~ "+b.String()), true, func() interface{} {
					return map[string]interface{}{"a": a.String(), "b": b.String(), "reported_equal": true, "mode": "NSName id-list enumeration", "objects_compared": len(c17Universe)}
				}, "nsnamesets_reported_equal")
			}
		}
	}
	statMu.Lock()
	p := statFor("C17")
	p.Evaluations += pairs - equalPairs
	p.Labels["nsnamesets_pairs"] += pairs
	statMu.Unlock()
	if shard == 0 {
		statExhaustive("C17", fmt.Sprintf("all ordered pairs of %d NSName filters (id lists of length <= 2 over 6 ids: namespace-only, full, name-only; bare and wrapped)", len(terms)))
	}
}
