//go:build verif

package verifharness

// C13 — periodic relisting never stops while the controller runs.
//
// Observation point: the fake client's record of List() calls (start, return,
// concurrency).  Configuration: refresh period P, list latency L (the fake
// sleeps, honouring ctx), result-consumption delay D (a watch event is
// published just before a list returns and the controller-level filter sleeps
// D while the controller applies it, so the list result waits to be
// consumed).
//
// Oracle: never two List calls in flight; start(i+1) - return(i) >= 0.9*P
// (the ticker's fuzz is 10%; only this *lower* bound is asserted: load can
// only lengthen a gap); liveness: at least 3 further lists within
// 10*(1.1P+L+D)+2s, re-checked once with the triple bound before a wedge is
// declared; Close() afterwards returns within the wedge bound and no library
// goroutine is left.

import (
	"context"
	"fmt"
	"strconv"
	"strings"
	"sync"
	"testing"
	"time"

	"github.com/boz/kcache"
	"github.com/boz/kcache/filter"
	metav1 "k8s.io/apimachinery/pkg/apis/meta/v1"
	"pgregory.net/rapid"
)

type c13Result struct {
	violation string
	lists     int
	delayHit  int
	closeTook time.Duration
}

// c13Run runs one controller with (P, L, D); closeAfter < 0: observe `want`
// lists then close; otherwise close after that duration.
func c13Run(P, L, D time.Duration, want int, closeAfter time.Duration) (res c13Result) {
	a := newFakeAPI()
	a.put("a", "p", nil)
	// The consumption delay: just before list k returns, a trigger object "t<k>" is published on the
	// watch; the controller-level filter sleeps D the first time it sees t<k>.  List k's snapshot was
	// taken before the trigger existed, so an evaluation that starts before list k has returned can
	// only come from the watch event: the controller loop is then busy until the sleep ends and
	// cannot consume list k's result earlier.
	type sleepRec struct{ start, end time.Time }
	var smu sync.Mutex
	sleeps := map[int]*sleepRec{}
	slow := filter.FN(func(o metav1.Object) bool {
		name := o.GetName()
		if D > 0 && strings.HasPrefix(name, "t") {
			if k, err := strconv.Atoi(name[1:]); err == nil {
				smu.Lock()
				if sleeps[k] == nil {
					r := &sleepRec{start: time.Now()}
					sleeps[k] = r
					smu.Unlock()
					time.Sleep(D)
					smu.Lock()
					r.end = time.Now()
				}
				smu.Unlock()
			}
		}
		return true
	})
	a.listLatency = func(k int) time.Duration { return L }
	a.beforeListReturn = func(k int) {
		if D > 0 && k >= 1 {
			a.put("a", fmt.Sprintf("t%d", k), nil)
			time.Sleep(300 * time.Microsecond) // let the event reach the controller loop first
			if k > 3 {
				a.del("a", fmt.Sprintf("t%d", k-3))
			}
		}
	}
	ctx, cancel := context.WithCancel(context.Background())
	defer cancel()
	b := kcache.NewBuilder().Context(ctx).Log(newPlog(false, 1)).Client(a).Filter(slow)
	b.Lister().RefreshPeriod(P)
	root, err := b.Create()
	builderReusedAfterCreate(b, P) // the builder goes on to another configuration: the controller keeps its own
	if err != nil {
		return c13Result{violation: "create: " + err.Error()}
	}
	countLists := func() int {
		a.mu.Lock()
		defer a.mu.Unlock()
		n := 0
		for _, c := range a.listCalls {
			if c.returned && !c.cancelled {
				n++
			}
		}
		return n
	}
	if closeAfter >= 0 {
		time.Sleep(closeAfter)
	} else {
		per := time.Duration(1.1*float64(P)) + L + D
		bound := 10*per*time.Duration(want)/3 + 2*time.Second
		waitLists := func(d time.Duration) bool {
			deadline := time.Now().Add(d)
			for countLists() < want {
				if time.Now().After(deadline) {
					return false
				}
				time.Sleep(P / 4)
			}
			return true
		}
		if !waitLists(bound) && !waitLists(3*bound) {
			_, dump := libGoroutines()
			res.violation = fmt.Sprintf("WEDGE: period %v, list latency %v, consumption delay %v: only %d List calls completed in %v (expected at least %d): relisting stopped\n%s", P, L, D, countLists(), 4*bound, want, dump)
		}
	}
	// shutdown promptly
	t0 := time.Now()
	if !closeBounded(root) {
		if res.violation == "" {
			_, dump := libGoroutines()
			res.violation = fmt.Sprintf("WEDGE: period %v, list latency %v, consumption delay %v: Close() did not return (after %d lists)\n%s", P, L, D, countLists(), dump)
		}
		return res
	}
	res.closeTook = time.Since(t0)
	if !isClosedCh(root.Done()) {
		res.violation = "Close() returned but Done() is not closed"
		return res
	}
	// the call record
	a.mu.Lock()
	calls := append([]*listCall(nil), a.listCalls...)
	a.mu.Unlock()
	res.lists = len(calls)
	timeline := func() string {
		if len(calls) == 0 {
			return ""
		}
		t0 := calls[0].start
		var b strings.Builder
		for _, c := range calls {
			fmt.Fprintf(&b, " #%d[%v..%v conc=%d cancelled=%v]", c.k, c.start.Sub(t0), c.end.Sub(t0), c.concurrent, c.cancelled)
		}
		smu.Lock()
		for k, r := range sleeps {
			fmt.Fprintf(&b, " sleep(t%d)[%v..%v]", k, r.start.Sub(t0), r.end.Sub(t0))
		}
		smu.Unlock()
		return b.String()
	}
	defer func() {
		if res.violation != "" {
			res.violation += "\n  call record (offsets from the first List call):" + timeline()
		}
	}()
	for i, c := range calls {
		if c.concurrent > 1 {
			res.violation = fmt.Sprintf("period %v, latency %v, delay %v: List call #%d started while another List call was still in flight", P, L, D, c.k)
			return res
		}
		if i > 0 {
			prev := calls[i-1]
			if !prev.returned {
				res.violation = fmt.Sprintf("List call #%d started although call #%d had not returned", c.k, prev.k)
				return res
			}
			gap := c.start.Sub(prev.end)
			min := time.Duration(0.9*float64(P)) - 500*time.Microsecond
			if gap < min {
				res.violation = fmt.Sprintf("period %v, latency %v, delay %v: List call #%d started %v after call #%d returned; expected at least about one period (>= %v)", P, L, D, c.k, gap, prev.k, min)
				return res
			}
			// the same bound measured from the consumption of the previous result, where the harness
			// can bound that instant from below: the controller was inside the sleeping filter before
			// list prev.k returned, so it consumed that result no earlier than the end of the sleep
			smu.Lock()
			r := sleeps[prev.k]
			var rs, re time.Time
			if r != nil {
				rs, re = r.start, r.end
			}
			smu.Unlock()
			if r != nil && !re.IsZero() && rs.Before(prev.end) {
				res.delayHit++
				if g2 := c.start.Sub(re); g2 < min {
					res.violation = fmt.Sprintf("period %v, latency %v, consumption delay %v: List call #%d started %v after the result of call #%d could first have been consumed (the controller was busy until then); expected at least about one period (>= %v)", P, L, D, c.k, g2, prev.k, min)
					return res
				}
			}
		}
	}
	return res
}

func TestC13_Grid(t *testing.T) {
	shard, nshards := shardOf()
	type cfg struct{ P, L, D time.Duration }
	var grid []cfg
	for _, p := range []time.Duration{4 * time.Millisecond, 10 * time.Millisecond, 25 * time.Millisecond} {
		for _, lf := range []float64{0, .5, .9, 1, 1.1, 2, 5} {
			for _, df := range []float64{0, 1, 2} {
				grid = append(grid, cfg{p, time.Duration(lf * float64(p)), time.Duration(df * float64(p))})
			}
		}
	}
	var wg sync.WaitGroup
	var mu sync.Mutex
	var firstViolation string
	sem := make(chan struct{}, 24)
	for i, g := range grid {
		if i%nshards != shard {
			continue
		}
		wg.Add(1)
		go func(g cfg) {
			defer wg.Done()
			sem <- struct{}{}
			defer func() { <-sem }()
			mu.Lock()
			stop := firstViolation != ""
			mu.Unlock()
			if stop {
				return // one violation is enough: do not spend a wedge bound on every remaining configuration
			}
			r := c13Run(g.P, g.L, g.D, 6, -1)
			mu.Lock()
			defer mu.Unlock()
			if r.violation != "" && firstViolation == "" {
				firstViolation = r.violation
				writeEnumReplay(t, "C13", "TestC13_Grid", fmt.Sprintf("P=%v L=%v D=%v", g.P, g.L, g.D), r.violation)
			}
			id := fmt.Sprintf("P=%v L=%v D=%v timers=%s", g.P, g.L, g.D, timerMode())
			statCase("C13", hashString(id), float64(g.L+g.D) > 0.9*float64(g.P), func() interface{} {
				return map[string]interface{}{"mode": "grid", "period": g.P.String(), "list_latency": g.L.String(), "consumption_delay": g.D.String(), "lists_observed": r.lists, "gaps_showing_consumption_delay": r.delayHit, "close_took": r.closeTook.String(), "timer_mode": timerMode()}
			}, "grid", "timers_"+timerMode())
			if g.D > 0 && r.delayHit > 0 {
				statLabel("C13", "cases_where_consumption_delay_was_effective", 1)
			}
		}(g)
	}
	wg.Wait()
	if firstViolation != "" {
		t.Fatalf("C13 violation: %s", firstViolation)
	}
	if n, dump := waitNoLibGoroutines(wedgeBound); n != 0 {
		t.Fatalf("C13 violation: %d library goroutines left after all controllers were closed:\n%s", n, dump)
	}
	if shard == 0 {
		statExhaustive("C13", fmt.Sprintf("grid of %d (period, list latency, consumption delay) triples: P in {4,10,25}ms x L in P*{0,.5,.9,1,1.1,2,5} x D in P*{0,1,2}; timer mode %s", len(grid), timerMode()))
	}
}

func timerMode() string {
	if v := getenvGodebug("asynctimerchan"); v == "1" {
		return "asynctimerchan=1(go<1.23 semantics)"
	}
	return "asynctimerchan=0(go1.23 semantics)"
}

// TestC13_Random: random triples and random shutdown instants within the
// list/tick cycle.
func TestC13_Random(t *testing.T) {
	rapid.Check(t, func(t *rapid.T) {
		P := time.Duration(rapid.IntRange(2000, 30000).Draw(t, "periodUs")) * time.Microsecond
		L := time.Duration(float64(P) * float64(rapid.IntRange(0, 500).Draw(t, "latencyPct")) / 100)
		D := time.Duration(0)
		if rapid.Bool().Draw(t, "delay") {
			D = time.Duration(float64(P) * float64(rapid.IntRange(10, 250).Draw(t, "delayPct")) / 100)
		}
		if rapid.IntRange(0, 2).Draw(t, "nearPeriod") == 0 {
			// the result is consumed just about when the refresh timer expires: Reset() then
			// races with the expiry (the window of the stale-tick defect repaired in d4e0d22)
			total := time.Duration(float64(P) * float64(rapid.IntRange(80, 118).Draw(t, "totalPct")) / 100)
			total -= 350 * time.Microsecond // the harness's own hand-over pause before a list returns
			if total < 0 {
				total = 0
			}
			L = time.Duration(float64(total) * float64(rapid.IntRange(0, 100).Draw(t, "split")) / 100)
			D = total - L
		}
		closeAfter := time.Duration(-1)
		want := rapid.IntRange(3, 6).Draw(t, "lists")
		if rapid.Bool().Draw(t, "closeAtInstant") {
			// any instant within the first few cycles
			closeAfter = time.Duration(rapid.IntRange(0, int(3*(P+L+D)/time.Microsecond)).Draw(t, "closeAfterUs")) * time.Microsecond
		}
		r := c13Run(P, L, D, want, closeAfter)
		if r.violation != "" {
			t.Fatalf("C13 violation: %s", r.violation)
		}
		if n, dump := waitNoLibGoroutines(wedgeBound); n != 0 {
			t.Fatalf("C13 violation: %d library goroutines left after Close:\n%s", n, dump)
		}
		id := fmt.Sprintf("P=%v L=%v D=%v close=%v", P, L, D, closeAfter)
		statCase("C13", hashString(id), float64(L+D) > 0.9*float64(P), func() interface{} {
			return map[string]interface{}{"mode": "random", "period": P.String(), "list_latency": L.String(), "consumption_delay": D.String(), "close_after": closeAfter.String(), "lists_observed": r.lists, "timer_mode": timerMode()}
		}, "random", fmt.Sprintf("random_close_instant=%v", closeAfter >= 0), "timers_"+timerMode())
	})
}

// TestC13_CloseDuringSlowList: "it still shuts down promptly": a list that
// would take seconds is in flight when Close() is called; the client honours
// its context, so Close() must return long before the list's own latency
// has elapsed, and the fake must have seen the call cancelled.
func TestC13_CloseDuringSlowList(t *testing.T) {
	rapid.Check(t, func(t *rapid.T) {
		P := time.Duration(rapid.IntRange(2000, 20000).Draw(t, "periodUs")) * time.Microsecond
		slowK := rapid.IntRange(1, 3).Draw(t, "slowList")
		slow := time.Duration(rapid.IntRange(2500, 4000).Draw(t, "slowMs")) * time.Millisecond
		after := time.Duration(rapid.IntRange(0, 30000).Draw(t, "closeAfterStartUs")) * time.Microsecond
		how := rapid.SampledFrom([]string{"close", "cancel"}).Draw(t, "how")
		a := newFakeAPI()
		a.put("a", "p", nil)
		a.listLatency = func(k int) time.Duration {
			if k == slowK {
				return slow
			}
			return 0
		}
		ctx, cancel := context.WithCancel(context.Background())
		defer cancel()
		b := kcache.NewBuilder().Context(ctx).Log(newPlog(false, 1)).Client(a)
		b.Lister().RefreshPeriod(P)
		root, err := b.Create()
		builderReusedAfterCreate(b, P) // the builder goes on to another configuration: the controller keeps its own
		if err != nil {
			t.Fatalf("create: %v", err)
		}
		defer func() { cancel(); go root.Close() }()
		// wait until the slow list is in flight
		deadline := time.Now().Add(wedgeBoundNow())
		for {
			a.mu.Lock()
			inflight := len(a.listCalls) >= slowK && !a.listCalls[slowK-1].returned
			a.mu.Unlock()
			if inflight {
				break
			}
			if time.Now().After(deadline) {
				t.Fatalf("C13 violation: WEDGE: list #%d was never issued (period %v)", slowK, P)
			}
			time.Sleep(P / 8)
		}
		time.Sleep(after)
		t0 := time.Now()
		done := make(chan struct{})
		go func() {
			if how == "close" {
				root.Close()
			} else {
				cancel()
				<-root.Done()
			}
			close(done)
		}()
		// the list would run for >= 2.4 s more; a second is three orders of magnitude above a normal shutdown
		select {
		case <-done:
		case <-time.After(time.Second):
			a.mu.Lock()
			c := a.listCalls[slowK-1]
			a.mu.Unlock()
			t.Fatalf("C13 violation: %s while list #%d was in flight (latency %v, period %v): the controller had not shut down after 1s; the in-flight List call was cancelled=%v returned=%v", how, slowK, slow, P, c.cancelled, c.returned)
		}
		took := time.Since(t0)
		a.mu.Lock()
		c := a.listCalls[slowK-1]
		a.mu.Unlock()
		if !c.returned || !c.cancelled {
			t.Fatalf("C13 violation: the controller shut down but the in-flight List call #%d was not cancelled (returned=%v cancelled=%v)", slowK, c.returned, c.cancelled)
		}
		cancel()
		if n, dump := waitNoLibGoroutines(wedgeBoundNow()); n != 0 {
			t.Fatalf("C13 violation: %d library goroutines left after shutdown during a slow list:\n%s", n, dump)
		}
		id := fmt.Sprintf("slowlist P=%v k=%d after=%v %s", P, slowK, after, how)
		statCase("C13", hashString(id), true, func() interface{} {
			return map[string]interface{}{"mode": "shutdown during a slow list", "period": P.String(), "slow_list": slowK, "list_latency": slow.String(), "shutdown": how, "shutdown_took": took.String()}
		}, "close_during_slow_list", "timers_"+timerMode())
	})
}

// TestC13_RunsOrStops: "for as long as it runs".  The k-th list fails (any
// failure kind, any error value); afterwards the controller must either have
// stopped (C14 says it does) or still be relisting.  A controller that stays
// up - Done() open, cache served - while no further List call is ever made
// has stopped relisting while running.
func TestC13_RunsOrStops(t *testing.T) {
	rapid.Check(t, func(t *rapid.T) {
		P := time.Duration(rapid.IntRange(1500, 12000).Draw(t, "periodUs")) * time.Microsecond
		L := time.Duration(float64(P) * float64(rapid.IntRange(0, 200).Draw(t, "latencyPct")) / 100)
		fault, flavour := drawListFault(t)
		k := rapid.IntRange(1, 4).Draw(t, "k")
		a := newFakeAPI()
		a.put("a", "p", nil)
		a.listErr = flavour
		a.listLatency = func(int) time.Duration { return L }
		a.listFaults[k] = fault
		ctx, cancel := context.WithCancel(context.Background())
		defer cancel()
		b := kcache.NewBuilder().Context(ctx).Log(newPlog(false, 1)).Client(a)
		b.Lister().RefreshPeriod(P)
		root, err := b.Create()
		builderReusedAfterCreate(b, P) // the builder goes on to another configuration: the controller keeps its own
		if err != nil {
			t.Fatalf("create: %v", err)
		}
		defer func() { go root.Close() }()
		returned := func() int {
			a.mu.Lock()
			defer a.mu.Unlock()
			n := 0
			for _, c := range a.listCalls {
				if c.returned {
					n++
				}
			}
			return n
		}
		outcome := ""
		per := time.Duration(1.1*float64(P)) + L
		check := func(bound time.Duration) bool {
			deadline := time.Now().Add(bound)
			for time.Now().Before(deadline) {
				if isClosedCh(root.Done()) {
					outcome = "stopped"
					return true
				}
				if returned() >= k+2 {
					outcome = "kept relisting"
					return true
				}
				time.Sleep(P / 4)
			}
			return false
		}
		bound := 10*per*time.Duration(k+2) + 2*time.Second
		if !check(bound) && !check(3*bound) {
			_, dump := libGoroutines()
			t.Fatalf("C13 violation: WEDGE: period %v, latency %v: list #%d failed (%s); the controller is still running (Done() open, Error() = %v) but only %d List calls were ever made: relisting stopped while the controller runs\n%s",
				P, L, k, faultLabel(fault, flavour), root.Error(), returned(), dump)
		}
		if !closeBounded(root) {
			t.Fatalf("C13 violation: WEDGE: Close() did not return after the failed list")
		}
		if n, dump := waitNoLibGoroutines(wedgeBound); n != 0 {
			t.Fatalf("C13 violation: %d library goroutines left:\n%s", n, dump)
		}
		statCase("C13", hashString(fmt.Sprintf("runsorstops %v %v %s %d", P, L, faultLabel(fault, flavour), k)), true, func() interface{} {
			return map[string]interface{}{"mode": "failed list: stopped or still relisting", "period": P.String(), "list_latency": L.String(), "fault": faultLabel(fault, flavour), "failing_list": k, "outcome": outcome}
		}, "runs_or_stops", "outcome_"+outcome, faultLabel(fault, flavour))
	})
}

// TestC13_LongPeriods: refresh periods of hours and days cannot be waited for,
// but the lower bound of the statement can still be refuted: "each list starts
// no earlier than about one period after the previous result was consumed".
// With such a period exactly one List call may happen within the few hundred
// milliseconds the case lasts - a period computation that overflows or
// truncates for large values relists at once.  Shutdown must be prompt.
func TestC13_LongPeriods(t *testing.T) {
	periods := []time.Duration{time.Minute, time.Hour, 2*time.Hour + 19*time.Minute, 2*time.Hour + 30*time.Minute, 3 * time.Hour, 4 * time.Hour, 6 * time.Hour,
		24 * time.Hour, 48 * time.Hour, 30 * 24 * time.Hour, 365 * 24 * time.Hour, time.Duration(1<<62 - 1), time.Duration(1<<63-1) / 3}
	rapid.Check(t, func(t *rapid.T) {
		P := rapid.SampledFrom(periods).Draw(t, "period")
		if rapid.Bool().Draw(t, "jitter") {
			P += time.Duration(rapid.Int64Range(0, int64(time.Hour)).Draw(t, "extra"))
			if P < 0 {
				P = time.Duration(1<<63 - 1)
			}
		}
		observe := time.Duration(rapid.IntRange(60, 250).Draw(t, "observeMs")) * time.Millisecond
		a := newFakeAPI()
		a.put("a", "p", nil)
		ctx, cancel := context.WithCancel(context.Background())
		defer cancel()
		b := kcache.NewBuilder().Context(ctx).Log(newPlog(false, 1)).Client(a)
		b.Lister().RefreshPeriod(P)
		root, err := b.Create()
		builderReusedAfterCreate(b, P) // the builder goes on to another configuration: the controller keeps its own
		if err != nil {
			t.Fatalf("create: %v", err)
		}
		defer func() { go root.Close() }()
		if !waitWedge(root.Ready()) {
			t.Fatalf("C13 violation: WEDGE: the controller never became ready (period %v)", P)
		}
		time.Sleep(observe)
		if n := a.listCount(); n != 1 {
			t.Fatalf("C13 violation: refresh period %v: %d List calls were made within %v of start-up; each list must start no earlier than about one period after the previous result was consumed", P, n, observe)
		}
		t0 := time.Now()
		if !closeBounded(root) {
			t.Fatalf("C13 violation: WEDGE: Close() did not return (period %v)", P)
		}
		if d := time.Since(t0); d > 2*time.Second {
			t.Fatalf("C13 violation: Close() took %v with refresh period %v", d, P)
		}
		if n, dump := waitNoLibGoroutines(wedgeBound); n != 0 {
			t.Fatalf("C13 violation: %d library goroutines left after Close:\n%s", n, dump)
		}
		statCase("C13", hashString(fmt.Sprintf("long %v %v", P, observe)), P > time.Hour, func() interface{} {
			return map[string]interface{}{"mode": "long refresh period: no second list at once", "period": P.String(), "observed_for": observe.String()}
		}, "long_period")
	})
}

// TestC13_SlowListScale: "for every combination of refresh period and list
// latency": latencies on a logarithmic scale up to half a minute (one per
// shard, real time).  The second list takes that long (the client honours its
// context); once it has returned, relisting must go on - two further lists -
// and Close() must still be prompt.  A bound on how long a single list may
// take that is not re-armed afterwards shows here.
func TestC13_SlowListScale(t *testing.T) {
	lats := []time.Duration{300 * time.Millisecond, time.Second, 3 * time.Second, 10 * time.Second, 33 * time.Second}
	shard, nshards := shardOf()
	for i, L := range lats {
		if i%nshards != shard || i >= envInt("VERIF_SLOWLIST_N", len(lats)) {
			continue
		}
		P := 150 * time.Millisecond
		a := newFakeAPI()
		a.put("a", "p", nil)
		a.listLatency = func(k int) time.Duration {
			if k == 2 {
				return L
			}
			return 0
		}
		ctx, cancel := context.WithCancel(context.Background())
		b := kcache.NewBuilder().Context(ctx).Log(newPlog(false, 1)).Client(a)
		b.Lister().RefreshPeriod(P)
		root, err := b.Create()
		builderReusedAfterCreate(b, P) // the builder goes on to another configuration: the controller keeps its own
		if err != nil {
			t.Fatalf("create: %v", err)
		}
		returned := func() int {
			a.mu.Lock()
			defer a.mu.Unlock()
			n := 0
			for _, c := range a.listCalls {
				if c.returned && !c.cancelled {
					n++
				}
			}
			return n
		}
		deadline := time.Now().Add(L + 20*P + wedgeBoundNow())
		for returned() < 4 {
			if isClosedCh(root.Done()) {
				cancel()
				t.Fatalf("C13 violation: list latency %v (period %v): the controller shut down: %v", L, P, root.Error())
			}
			if time.Now().After(deadline) {
				a.mu.Lock()
				calls := len(a.listCalls)
				a.mu.Unlock()
				rerr := root.Error()
				cancel()
				go root.Close()
				writeEnumReplay(t, "C13", "TestC13_SlowListScale", fmt.Sprintf("latency %v", L), "relisting stopped")
				t.Fatalf("C13 violation: WEDGE: period %v, the second list took %v: only %d List calls returned (%d issued) within %v: relisting stopped after the slow list although the controller is running (Error() = %v)", P, L, returned(), calls, L+20*P+wedgeBoundNow(), rerr)
			}
			time.Sleep(P / 2)
		}
		if !closeBounded(root) {
			cancel()
			t.Fatalf("C13 violation: WEDGE: Close() did not return (list latency %v)", L)
		}
		cancel()
		if n, dump := waitNoLibGoroutines(wedgeBound); n != 0 {
			t.Fatalf("C13 violation: %d library goroutines left after Close:\n%s", n, dump)
		}
		statCase("C13", hashString(fmt.Sprintf("slowscale %v", L)), true, func() interface{} {
			return map[string]interface{}{"mode": "one very slow list, then relisting continues", "period": P.String(), "list_latency": L.String()}
		}, "slow_list_scale")
	}
}


// builderReusedAfterCreate: a Builder is a reusable recipe; what was created from it keeps the
// configuration it was created with.  Right after Create() the harness points the builder at a very
// different refresh period (as a caller preparing a second controller would).
func builderReusedAfterCreate(b kcache.Builder, P time.Duration) {
	other := time.Hour
	if P >= time.Minute {
		other = time.Millisecond
	}
	b.Lister().RefreshPeriod(other)
}
