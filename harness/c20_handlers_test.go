//go:build verif

package verifharness

// C20(e) — the typed handler builders of every package, driven directly.
// BuildHandler(): each registered callback is invoked exactly once per call,
// with the arguments of the call; an unregistered callback is a no-op.
// ToUnitary(BuildUnitaryHandler()): OnInitialize reaches the delegate only for
// a listing of exactly one object (with that object); Create/Update/Delete go
// straight through.  This is what the untyped kcache.BuildHandler does for its
// own callbacks, instantiated per type; all twelve packages are enumerated
// over the whole (small) input space: 2 targets x 16 registration sets x
// {init with 0..3 objects, create, update, delete}.

import (
	"fmt"
	"testing"
)

func TestC20_Handlers(t *testing.T) {
	var ops []handlerProbeOp
	var want []string
	for _, target := range []string{"handler", "unitary"} {
		for set := 0; set < 16; set++ {
			reg := [4]bool{set&1 != 0, set&2 != 0, set&4 != 0, set&8 != 0}
			for n := 0; n <= 3; n++ {
				i := len(ops)
				ops = append(ops, handlerProbeOp{Target: target, Set: reg, Call: "init", N: n})
				if reg[0] {
					if target == "handler" {
						names := ""
						for j := 0; j < n; j++ {
							names += fmt.Sprintf("o%d,", j)
						}
						want = append(want, fmt.Sprintf("%d:init:%s", i, names))
					} else if n == 1 {
						want = append(want, fmt.Sprintf("%d:init:o0,", i))
					}
				}
			}
			for ci, call := range []string{"create", "update", "delete"} {
				i := len(ops)
				ops = append(ops, handlerProbeOp{Target: target, Set: reg, Call: call, N: 1})
				if reg[ci+1] {
					want = append(want, fmt.Sprintf("%d:%s:o0,", i, call))
				}
			}
		}
	}
	for _, pkg := range typedPkgNames {
		got := typedPkgs[pkg].handlerProbe(newPlog(false, 1), ops)
		for i := 0; i < len(got) || i < len(want); i++ {
			g, w := "<nothing>", "<nothing>"
			if i < len(got) {
				g = got[i]
			}
			if i < len(want) {
				w = want[i]
			}
			if g != w {
				msg := fmt.Sprintf("package %s: handler builders: callback record %d is %q, expected %q (format: <call index>:<callback>:<objects>; call %v)", pkg, i, g, w, describeProbe(ops, g, w))
				writeEnumReplay(t, "C20", "TestC20_Handlers", pkg, msg)
				t.Fatalf("C20 violation: %s", msg)
			}
		}
		statCase("C20", hashString("handlers;"+pkg), true, func() interface{} {
			return map[string]interface{}{"mode": "typed handler builders", "type": pkg, "calls": len(ops), "callbacks_expected": len(want)}
		}, "handler_builders")
	}
	statExhaustive("C20", fmt.Sprintf("typed handler builders of all %d packages: BuildHandler and ToUnitary(BuildUnitaryHandler) x 16 registration sets x {OnInitialize with 0-3 objects, OnCreate, OnUpdate, OnDelete} (%d calls each)", len(typedPkgNames), len(ops)))
}

func describeProbe(ops []handlerProbeOp, g, w string) string {
	for _, s := range []string{g, w} {
		var idx int
		if _, err := fmt.Sscanf(s, "%d:", &idx); err == nil && idx < len(ops) {
			return fmt.Sprintf("%+v", ops[idx])
		}
	}
	return "?"
}
