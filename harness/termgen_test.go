//go:build verif

package verifharness

import (
	"github.com/boz/kcache/nsname"
	"pgregory.net/rapid"
)

type termCfg struct {
	typed bool // include the typed-package filters
	fn    bool // include filter.FN
}

func genLabelMap(allowNil bool) *rapid.Generator[map[string]string] {
	return rapid.Custom(func(t *rapid.T) map[string]string {
		if allowNil && rapid.IntRange(0, 5).Draw(t, "nilmap") == 0 {
			return nil
		}
		m := map[string]string{}
		for _, k := range uniKeys {
			if rapid.IntRange(0, 2).Draw(t, "has_"+k) > 0 {
				m[k] = rapid.SampledFrom(uniValues).Draw(t, "v_"+k)
			}
		}
		return m
	})
}

func genSelSpec() *rapid.Generator[selSpec] {
	return rapid.Custom(func(t *rapid.T) selSpec {
		if rapid.IntRange(0, 7).Draw(t, "nilsel") == 0 {
			return selSpec{Nil: true}
		}
		s := selSpec{}
		if rapid.Bool().Draw(t, "hasml") {
			s.MatchLabels = genLabelMap(false).Draw(t, "ml")
		}
		n := rapid.IntRange(0, 2).Draw(t, "nexpr")
		for i := 0; i < n; i++ {
			r := selReq{Key: rapid.SampledFrom(uniKeys).Draw(t, "key"), Op: rapid.SampledFrom([]string{"In", "NotIn", "Exists", "DoesNotExist"}).Draw(t, "op")}
			if r.Op == "In" || r.Op == "NotIn" {
				// a non-empty list of values, order and repetition free
				r.Values = rapid.SliceOfN(rapid.SampledFrom(uniValues), 1, 3).Draw(t, "values")
			}
			s.Exprs = append(s.Exprs, r)
		}
		return s
	})
}

func genNSNameIDs() *rapid.Generator[[]nsname.NSName] {
	return rapid.Custom(func(t *rapid.T) []nsname.NSName {
		n := rapid.IntRange(0, 3).Draw(t, "nids")
		var ids []nsname.NSName
		for i := 0; i < n; i++ {
			ns := rapid.SampledFrom(append([]string{""}, uniNamespaces...)).Draw(t, "ns")
			names := uniNames
			if ns != "" {
				names = append([]string{""}, uniNames...)
			}
			// both fields empty is outside the contract: never generated
			name := rapid.SampledFrom(names).Draw(t, "name")
			ids = append(ids, nsname.New(ns, name))
		}
		return ids
	})
}

func genWorkloads(kind string, max int) *rapid.Generator[[]workload] {
	return rapid.Custom(func(t *rapid.T) []workload {
		n := rapid.IntRange(0, max).Draw(t, "nsrc")
		seen := map[string]bool{}
		var ws []workload
		for i := 0; i < n; i++ {
			w := workload{NS: rapid.SampledFrom(uniNamespaces[:2]).Draw(t, "wns"), Name: rapid.SampledFrom([]string{"w1", "w2", "w3"}).Draw(t, "wname"), Sel: selSpec{Nil: true}}
			if seen[w.NS+"/"+w.Name] {
				continue // real sources have unique namespace/name
			}
			seen[w.NS+"/"+w.Name] = true
			if rapid.IntRange(0, 2).Draw(t, "hasuid") > 0 {
				w.UID = rapid.SampledFrom([]string{"u1", "u2"}).Draw(t, "wuid")
				w.Gen = int64(rapid.IntRange(0, 2).Draw(t, "wgen"))
			}
			if rapid.IntRange(0, 3).Draw(t, "hastpl") > 0 {
				w.Template = genLabelMap(false).Draw(t, "tpl")
			}
			switch kind {
			case "service", "replicationcontroller":
				if rapid.IntRange(0, 4).Draw(t, "hasset") > 0 {
					w.HasSet = true
					w.SetSel = genLabelMap(false).Draw(t, "setsel")
				}
				if kind == "replicationcontroller" && w.Template == nil && rapid.Bool().Draw(t, "tplnil") {
					w.TemplateNil = true
				}
				if kind == "service" {
					w.Template = nil
				}
			case "ingress":
				w.Template = nil
				switch rapid.IntRange(0, 2).Draw(t, "defbe") {
				case 1:
					s := ""
					w.DefaultBackend = &s
				case 2:
					s := rapid.SampledFrom(uniNames).Draw(t, "defsvc")
					w.DefaultBackend = &s
				}
				nr := rapid.IntRange(0, 2).Draw(t, "nrules")
				for r := 0; r < nr; r++ {
					if rapid.IntRange(0, 4).Draw(t, "nohttp") == 0 {
						w.Paths = append(w.Paths, nil)
						continue
					}
					w.Paths = append(w.Paths, rapid.SliceOfN(rapid.SampledFrom(append([]string{""}, uniNames...)), 0, 2).Draw(t, "paths"))
					if w.Paths[len(w.Paths)-1] == nil {
						w.Paths[len(w.Paths)-1] = []string{}
					}
				}
			default:
				w.Sel = genSelSpec().Draw(t, "wsel")
			}
			ws = append(ws, w)
		}
		return ws
	})
}

func genLeaf(cfg termCfg) *rapid.Generator[*term] {
	return rapid.Custom(func(t *rapid.T) *term {
		kinds := []termKind{tNull, tAll, tNSName, tNSName, tLabels, tLabels, tLabelSelector, tLabelSelector, tSelEverything, tSelNothing}
		if cfg.fn {
			kinds = append(kinds, tFN)
		}
		if cfg.typed {
			kinds = append(kinds, tNode, tInvolved, tSelectorMatch, tWorkloadPods, tWorkloadPods, tIngressServices)
		}
		k := rapid.SampledFrom(kinds).Draw(t, "leaf")
		tm := &term{Kind: k}
		switch k {
		case tNSName:
			tm.IDs = genNSNameIDs().Draw(t, "ids")
		case tLabels, tSelectorMatch:
			tm.Set = genLabelMap(true).Draw(t, "set")
		case tLabelSelector:
			tm.Sel = genSelSpec().Draw(t, "sel")
		case tFN:
			tm.FN = rapid.IntRange(0, len(fnPreds)-1).Draw(t, "fn")
		case tNode:
			tm.Names = rapid.SliceOfN(rapid.SampledFrom([]string{"", "n1", "n2"}), 0, 2).Draw(t, "nodes")
		case tInvolved:
			// kind "": what InvolvedObjectFilter derives from an object without TypeMeta
			tm.Inv = [3]string{rapid.SampledFrom([]string{"Pod", "Service", ""}).Draw(t, "ik"), rapid.SampledFrom(uniNamespaces[:2]).Draw(t, "ins"), rapid.SampledFrom(uniNames[:2]).Draw(t, "iname")}
		case tWorkloadPods:
			tm.WKind = rapid.SampledFrom(workloadKinds).Draw(t, "wkind")
			tm.Sources = genWorkloads(tm.WKind, 3).Draw(t, "sources")
		case tIngressServices:
			tm.WKind = "ingress"
			tm.Sources = genWorkloads("ingress", 2).Draw(t, "sources")
		}
		return tm
	})
}

func genTerm(cfg termCfg, depth int) *rapid.Generator[*term] {
	if depth <= 0 {
		return genLeaf(cfg)
	}
	return rapid.Custom(func(t *rapid.T) *term {
		switch rapid.IntRange(0, 5).Draw(t, "shape") {
		case 0:
			return genLeaf(cfg).Draw(t, "leaf")
		case 1, 2:
			return &term{Kind: tNot, Children: []*term{genTerm(cfg, depth-1).Draw(t, "child")}}
		default:
			k := tAnd
			if rapid.Bool().Draw(t, "or") {
				k = tOr
			}
			n := rapid.IntRange(0, 3).Draw(t, "nchildren")
			tm := &term{Kind: k, Children: []*term{}}
			for i := 0; i < n; i++ {
				tm.Children = append(tm.Children, genTerm(cfg, depth-1).Draw(t, "child"))
			}
			return tm
		}
	})
}

// mutateTerm returns a structurally nearby term: same constructor, slightly
// different (or permuted, or identical) arguments.  Used to bias pair
// generation towards the cases where equality can go wrong.
func mutateTerm(t *rapid.T, cfg termCfg, a *term) *term {
	b := *a
	b.Children = nil
	for _, c := range a.Children {
		b.Children = append(b.Children, c)
	}
	if a.Kind == tLabelSelector && !a.Sel.Nil && rapid.IntRange(0, 2).Draw(t, "selmut") > 0 {
		return mutateSelector(t, a)
	}
	if (a.Kind == tLabels || a.Kind == tSelectorMatch) && rapid.IntRange(0, 2).Draw(t, "setmut") > 0 {
		nb := cloneTerm(a)
		nb.Set = mutateSet(t, nb.Set)
		return nb
	}
	if a.Kind == tNSName && rapid.IntRange(0, 2).Draw(t, "idmut") > 0 {
		// one id replaced, added or removed (same length in the first case: the shape on which a
		// hand-written id-list comparison goes wrong)
		nb := cloneTerm(a)
		fresh := genNSNameIDs().Draw(t, "freshids")
		switch how := rapid.IntRange(0, 2).Draw(t, "idhow"); {
		case how == 0 && len(nb.IDs) > 0 && len(fresh) > 0:
			nb.IDs[rapid.IntRange(0, len(nb.IDs)-1).Draw(t, "idpos")] = fresh[0]
		case how == 1 && len(fresh) > 0:
			nb.IDs = append(nb.IDs, fresh[0])
		case len(nb.IDs) > 0:
			i := rapid.IntRange(0, len(nb.IDs)-1).Draw(t, "idpos")
			nb.IDs = append(nb.IDs[:i:i], nb.IDs[i+1:]...)
		}
		return nb
	}
	if len(a.Sources) > 0 && rapid.IntRange(0, 3).Draw(t, "srcmut") == 0 {
		// one source's label-valued argument changed slightly
		nb := cloneTerm(a)
		w := &nb.Sources[rapid.IntRange(0, len(nb.Sources)-1).Draw(t, "si")]
		switch {
		case w.HasSet:
			w.SetSel = mutateSet(t, w.SetSel)
		case w.Template != nil:
			w.Template = mutateSet(t, w.Template)
		case !w.Sel.Nil && w.Sel.MatchLabels != nil:
			w.Sel.MatchLabels = mutateSet(t, w.Sel.MatchLabels)
		}
		return nb
	}
	switch rapid.IntRange(0, 9).Draw(t, "mut") {
	case 0, 1: // rebuilt identical
		return cloneTerm(a)
	case 2: // permute list-valued arguments
		nb := cloneTerm(a)
		permuteTerm(t, nb)
		return nb
	case 3, 4: // mutate one child / argument
		nb := cloneTerm(a)
		if len(nb.Children) > 0 {
			i := rapid.IntRange(0, len(nb.Children)-1).Draw(t, "ci")
			nb.Children[i] = mutateTerm(t, cfg, nb.Children[i])
			return nb
		}
		fresh := genLeaf(cfg).Draw(t, "fresh")
		if fresh.Kind == nb.Kind {
			return fresh
		}
		return nb
	case 5: // drop a child, or make one child a duplicate of another (same length, fewer distinct children)
		nb := cloneTerm(a)
		if (nb.Kind == tAnd || nb.Kind == tOr) && len(nb.Children) > 0 {
			if len(nb.Children) > 1 && rapid.Bool().Draw(t, "dup") {
				i := rapid.IntRange(0, len(nb.Children)-1).Draw(t, "from")
				j := rapid.IntRange(0, len(nb.Children)-1).Draw(t, "to")
				nb.Children[j] = cloneTerm(nb.Children[i])
			} else {
				nb.Children = nb.Children[:len(nb.Children)-1]
			}
		}
		return nb
	case 6: // swap And <-> Or
		nb := cloneTerm(a)
		if nb.Kind == tAnd {
			nb.Kind = tOr
		} else if nb.Kind == tOr {
			nb.Kind = tAnd
		}
		return nb
	default:
		return genTerm(cfg, a.depth()).Draw(t, "other")
	}
}

func cloneTerm(a *term) *term {
	b := *a
	b.Children = nil
	for _, c := range a.Children {
		b.Children = append(b.Children, cloneTerm(c))
	}
	b.IDs = append([]nsname.NSName(nil), a.IDs...)
	b.Set = copySet(a.Set)
	b.Names = append([]string(nil), a.Names...)
	b.Sources = append([]workload(nil), a.Sources...)
	return &b
}

func permuteTerm(t *rapid.T, a *term) {
	switch {
	case len(a.Sources) > 1:
		a.Sources = rapid.Permutation(a.Sources).Draw(t, "perm")
	case len(a.IDs) > 1:
		a.IDs = rapid.Permutation(a.IDs).Draw(t, "perm")
	case len(a.Names) > 1:
		a.Names = rapid.Permutation(a.Names).Draw(t, "perm")
	case len(a.Children) > 0:
		permuteTerm(t, a.Children[rapid.IntRange(0, len(a.Children)-1).Draw(t, "pc")])
	}
}

// mutateSelector: a label selector that differs from a in one small way — a
// value added to or removed from one requirement, the values permuted, the
// operator changed, a requirement or a matchLabels entry added or removed.
func mutateSelector(t *rapid.T, a *term) *term {
	b := cloneTerm(a)
	b.Sel.MatchLabels = copySet(a.Sel.MatchLabels)
	b.Sel.Exprs = nil
	for _, r := range a.Sel.Exprs {
		b.Sel.Exprs = append(b.Sel.Exprs, selReq{Key: r.Key, Op: r.Op, Values: append([]string(nil), r.Values...)})
	}
	if len(b.Sel.Exprs) > 0 {
		i := rapid.IntRange(0, len(b.Sel.Exprs)-1).Draw(t, "req")
		r := &b.Sel.Exprs[i]
		switch rapid.IntRange(0, 5).Draw(t, "how") {
		case 0: // add a value
			if r.Op == "In" || r.Op == "NotIn" {
				r.Values = append(r.Values, rapid.SampledFrom(uniValues).Draw(t, "v"))
			}
		case 1: // remove a value (keep at least one)
			if len(r.Values) > 1 {
				j := rapid.IntRange(0, len(r.Values)-1).Draw(t, "j")
				r.Values = append(append([]string(nil), r.Values[:j]...), r.Values[j+1:]...)
			}
		case 2: // permute the values
			if len(r.Values) > 1 {
				r.Values = rapid.Permutation(r.Values).Draw(t, "perm")
			}
		case 3: // flip the operator within its arity
			switch r.Op {
			case "In":
				r.Op = "NotIn"
			case "NotIn":
				r.Op = "In"
			case "Exists":
				r.Op = "DoesNotExist"
			case "DoesNotExist":
				r.Op = "Exists"
			}
		case 4: // drop the requirement
			b.Sel.Exprs = append(b.Sel.Exprs[:i], b.Sel.Exprs[i+1:]...)
		case 5: // another key
			r.Key = rapid.SampledFrom(uniKeys).Draw(t, "k")
		}
		return b
	}
	if b.Sel.MatchLabels == nil {
		b.Sel.MatchLabels = map[string]string{}
	}
	k := rapid.SampledFrom(uniKeys).Draw(t, "k")
	if _, ok := b.Sel.MatchLabels[k]; ok && rapid.Bool().Draw(t, "del") {
		delete(b.Sel.MatchLabels, k)
	} else {
		b.Sel.MatchLabels[k] = rapid.SampledFrom(uniValues).Draw(t, "v")
	}
	return b
}

// mutateSet: a label map that differs from m in one small way - a key moved
// (same value under another key), a value changed (possibly to the empty
// string), a key added or removed.  Always returns a fresh map.
func mutateSet(t *rapid.T, m map[string]string) map[string]string {
	out := map[string]string{}
	for k, v := range m {
		out[k] = v
	}
	k := rapid.SampledFrom(uniKeys).Draw(t, "mk")
	_, has := out[k]
	switch rapid.IntRange(0, 3).Draw(t, "sethow") {
	case 0: // move k's entry to another key
		if has {
			v := out[k]
			delete(out, k)
			for _, k2 := range uniKeys {
				if _, has2 := out[k2]; k2 != k && !has2 {
					out[k2] = v
					break
				}
			}
		} else {
			out[k] = ""
		}
	case 1: // change (or set) the value
		out[k] = rapid.SampledFrom(uniValues).Draw(t, "mv")
	case 2: // remove / add
		if has {
			delete(out, k)
		} else {
			out[k] = rapid.SampledFrom(uniValues).Draw(t, "mv")
		}
	case 3: // empty value
		out[k] = ""
	}
	return out
}
