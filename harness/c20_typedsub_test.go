//go:build verif

package verifharness

// C20(d) — the typed subscription wrapper, in isolation, over a core
// subscription the harness owns (hook: pod.VerifNewSubscription; the other
// eleven packages are tied to this one by the source-level check: every
// generated file equals the instantiated template).
//
// The fake parent is a kcache.Subscription whose Events() channel the harness
// fills and closes and whose Done()/Ready() it controls.  What an untyped
// consumer reading that channel would see is, by definition, everything put
// into it, in order, up to the close - also when Done() closes before the
// channel has been drained (the core closes Events() first, fires Done()
// afterwards, and buffered events stay readable).  Oracle for the typed
// wrapper: its Events() deliver exactly the parent's events of its type (same
// event type, same object), foreign-typed and object-less events skipped, in
// order, and then close; when the typed consumer falls behind by more than the
// buffer the output is an in-order subsequence that contains at least the
// first EventBufsiz deliverable events; Ready/Done are the parent's; Close()
// closes the parent; the wrapper's goroutine ends once the parent's channel is
// closed.

import (
	"fmt"
	"sync/atomic"
	"testing"
	"time"

	"github.com/boz/kcache"
	tpod "github.com/boz/kcache/types/pod"
	corev1 "k8s.io/api/core/v1"
	metav1 "k8s.io/apimachinery/pkg/apis/meta/v1"
	"pgregory.net/rapid"
)

type fakeParentSub struct {
	evch    chan kcache.Event
	readych chan struct{}
	donech  chan struct{}
	closes  int32
}

type emptyCache struct{}

func (emptyCache) List() ([]metav1.Object, error)                 { return nil, nil }
func (emptyCache) Get(ns, name string) (metav1.Object, error)     { return nil, nil }
func (emptyCache) GetObject(metav1.Object) (metav1.Object, error) { return nil, nil }

func (f *fakeParentSub) Cache() kcache.CacheReader   { return emptyCache{} }
func (f *fakeParentSub) Ready() <-chan struct{}      { return f.readych }
func (f *fakeParentSub) Events() <-chan kcache.Event { return f.evch }
func (f *fakeParentSub) Close()                      { atomic.AddInt32(&f.closes, 1) }
func (f *fakeParentSub) Done() <-chan struct{}       { return f.donech }
func (f *fakeParentSub) Error() error                { return nil }

func TestC20_TypedSubscription(t *testing.T) {
	rapid.Check(t, func(t *rapid.T) {
		parent := &fakeParentSub{evch: make(chan kcache.Event, 1024), readych: make(chan struct{}), donech: make(chan struct{})}
		// the parent's stream
		n := rapid.IntRange(0, 260).Draw(t, "events")
		type want struct {
			typ kcache.EventType
			obj *corev1.Pod
		}
		var stream []kcache.Event
		var deliverable []want
		for i := 0; i < n; i++ {
			typ := rapid.SampledFrom([]kcache.EventType{kcache.EventTypeCreate, kcache.EventTypeUpdate, kcache.EventTypeDelete}).Draw(t, "type")
			switch rapid.IntRange(0, 9).Draw(t, "what") {
			case 0: // a foreign-typed object
				stream = append(stream, kcache.NewEvent(typ, &corev1.Service{ObjectMeta: metav1.ObjectMeta{Namespace: "a", Name: fmt.Sprintf("svc%d", i), ResourceVersion: fmt.Sprint(i + 1)}}))
			default:
				p := mkPod(rapid.SampledFrom([]string{"a", "b"}).Draw(t, "ns"), rapid.SampledFrom([]string{"p", "q", "r"}).Draw(t, "name"), fmt.Sprint(i+1), drawLabels(t))
				stream = append(stream, kcache.NewEvent(typ, p))
				deliverable = append(deliverable, want{typ, p})
			}
		}
		// schedule: how much of the stream is already in the parent's channel, and whether the parent has
		// already terminated (Events() closed, Done() closed), when the typed wrapper is created
		pre := rapid.IntRange(0, n).Draw(t, "queuedBeforeCreation")
		terminatedEarly := pre == n && rapid.Bool().Draw(t, "parentTerminatedBeforeCreation")
		doneBeforeDrain := rapid.Bool().Draw(t, "doneClosesBeforeTheChannelIsDrained")
		stallReads := rapid.IntRange(0, 3).Draw(t, "consumerStalls") == 0 // the consumer reads nothing until the parent has terminated
		for _, ev := range stream[:pre] {
			parent.evch <- ev
		}
		if terminatedEarly {
			close(parent.evch)
			close(parent.donech)
		}
		before, _ := libGoroutines()
		sub := tpod.VerifNewSubscription(parent)
		if sub.Ready() != (<-chan struct{})(parent.readych) || sub.Done() != (<-chan struct{})(parent.donech) {
			t.Fatalf("C20 violation: the typed subscription's Ready()/Done() are not its parent's")
		}
		var got []tpod.Event
		eof := make(chan struct{})
		gate := make(chan struct{})
		go func() {
			defer close(eof)
			if stallReads {
				<-gate
			}
			for ev := range sub.Events() {
				got = append(got, ev)
			}
		}()
		// the rest of the stream, then termination
		for _, ev := range stream[pre:] {
			parent.evch <- ev
		}
		if !terminatedEarly {
			if doneBeforeDrain {
				// the order the core uses: Events() closed first, Done() right after - long before a
				// consumer that is behind has drained the channel
				close(parent.evch)
				close(parent.donech)
			} else {
				close(parent.evch)
			}
		}
		if stallReads {
			// give the wrapper time to move what it can, then let the consumer read
			deadline := time.Now().Add(wedgeBoundNow())
			for len(parent.evch) > 0 && time.Now().Before(deadline) {
				time.Sleep(50 * time.Microsecond)
			}
			close(gate)
		}
		select {
		case <-eof:
		case <-time.After(wedgeBoundNow()):
			t.Fatalf("C20 violation: WEDGE: the parent's Events() channel was closed (after %d events) but the typed subscription's Events() never closed; %d events delivered so far", n, len(got))
		}
		if !terminatedEarly && !doneBeforeDrain {
			close(parent.donech)
		}
		// oracle
		overflowPossible := len(deliverable) > kcache.EventBufsiz
		j := 0
		for i, ev := range got {
			if ev.Resource() == nil {
				t.Fatalf("C20 violation: typed event %d carries no object", i)
			}
			for j < len(deliverable) && !(deliverable[j].typ == ev.Type() && deliverable[j].obj == ev.Resource()) {
				if !overflowPossible {
					t.Fatalf("C20 violation: the typed subscription skipped or reordered events: delivered #%d is %s %s, expected %s %s (parent stream: %d events, %d of the type; queued before creation %d; parent terminated before creation %v; Done before drain %v)",
						i, ev.Type(), objStr(ev.Resource()), deliverable[j].typ, objStr(deliverable[j].obj), n, len(deliverable), pre, terminatedEarly, doneBeforeDrain)
				}
				j++
			}
			if j == len(deliverable) {
				t.Fatalf("C20 violation: the typed subscription delivered %s %s, which is not the next event of its type in the parent's stream (duplicate, reordered or invented)", ev.Type(), objStr(ev.Resource()))
			}
			j++
		}
		if !overflowPossible && len(got) != len(deliverable) {
			t.Fatalf("C20 violation: the parent's stream held %d events of the type (all still readable from its Events() channel), the typed subscription delivered %d and closed (queued before creation %d; parent terminated before creation %v; Done() closed before the channel was drained %v; consumer stalled %v)",
				len(deliverable), len(got), pre, terminatedEarly, doneBeforeDrain, stallReads)
		}
		if overflowPossible {
			min := kcache.EventBufsiz
			if len(got) < min {
				t.Fatalf("C20 violation: %d events of the type were published, the typed subscription delivered only %d (< its buffer of %d)", len(deliverable), len(got), min)
			}
			if !stallReads {
				// nothing to add: a consumer that reads as fast as it can may still lose events beyond the buffer
			} else {
				for i := 0; i < min; i++ {
					if got[i].Resource() != deliverable[i].obj {
						t.Fatalf("C20 violation: a consumer that was not reading must find the first %d events of the type in its buffer; position %d differs", min, i)
					}
				}
			}
		}
		sub.Close()
		if atomic.LoadInt32(&parent.closes) != 1 {
			t.Fatalf("C20 violation: Close() on the typed subscription called the parent's Close() %d times", parent.closes)
		}
		if c, dump := waitLibGoroutinesAtMost(before, wedgeBoundNow()); c > before {
			t.Fatalf("C20 violation: the typed subscription's goroutine is still running after its parent's Events() channel was closed:\n%s", dump)
		}
		statCase("C20", hashString(fmt.Sprintf("typedsub %d %d %v %v %v %d", n, pre, terminatedEarly, doneBeforeDrain, stallReads, len(deliverable))), n > 0 && (terminatedEarly || doneBeforeDrain || stallReads), func() interface{} {
			return map[string]interface{}{"mode": "typed subscription over a harness-owned parent", "parent_events": n, "of_the_type": len(deliverable), "queued_before_creation": pre, "parent_terminated_before_creation": terminatedEarly, "done_before_drain": doneBeforeDrain, "consumer_stalled": stallReads, "delivered": len(got)}
		}, "typed_subscription_model", fmt.Sprintf("typedsub_overflow=%v", overflowPossible), fmt.Sprintf("typedsub_parent_done_with_backlog=%v", terminatedEarly || doneBeforeDrain))
	})
}
