//go:build verif

package verifharness

// C05 (continued) — one library goroutine is descheduled for a long time.
// The schedules the property quantifies over include a goroutine that stops
// for more than a second at an arbitrary point (here: at one of its log
// calls, chosen by ordinal) while events keep being published - fewer than
// one buffer, so nobody may lose anything.  Afterwards every subscriber,
// direct or behind clones, must hold exactly the published sequence: a
// hand-over that gives up on a slow peer after a timeout shows as an omission.

import (
	"context"
	"fmt"
	"strings"
	"testing"
	"time"

	"github.com/boz/kcache"
	"pgregory.net/rapid"
)

func TestC05_StalledGoroutine(t *testing.T) {
	rapid.Check(t, func(t *rapid.T) {
		a := newFakeAPI()
		keys := [][2]string{{"a", "p"}, {"a", "q"}, {"b", "p"}, {"b", "q"}}
		a.put("a", "p", nil)
		before, _ := libGoroutines()
		ctx, cancel := context.WithCancel(context.Background())
		defer cancel()
		plog := newPlog(rapid.Bool().Draw(t, "perturb"), rapid.Uint64().Draw(t, "pseed"))
		b := kcache.NewBuilder().Context(ctx).Log(plog).Client(a)
		b.Lister().RefreshPeriod(time.Hour)
		root, err := b.Create()
		if err != nil {
			t.Fatalf("create: %v", err)
		}
		defer func() { cancel(); go root.Close() }()
		var hist []string
		fail := func(format string, args ...interface{}) {
			t.Fatalf("C05 violation: %s\n  history: %s", fmt.Sprintf(format, args...), strings.Join(hist, "; "))
		}
		if !waitWedge(root.Ready()) {
			fail("WEDGE: the controller never became ready")
		}
		var nodes []*node
		mk := func(name string, pub kcache.Publisher) {
			s, err := pub.Subscribe()
			if err != nil {
				fail("Subscribe: %v", err)
			}
			n := &node{name: name, kind: "sub", sub: s, leaf: s, note: make(chan struct{}, 1), eof: make(chan struct{}), tokens: make(chan struct{}, 1)}
			go n.pump()
			nodes = append(nodes, n)
		}
		mk("direct", root)
		mk("direct2", root)
		c1, err := root.Clone()
		if err != nil {
			fail("Clone: %v", err)
		}
		mk("behind a clone", c1)
		if rapid.Bool().Draw(t, "deep") {
			c2, err := c1.Clone()
			if err != nil {
				fail("Clone: %v", err)
			}
			mk("behind two clones", c2)
		}
		var ref []string
		publish := func(n int) {
			for i := 0; i < n; i++ {
				k := rapid.SampledFrom(keys).Draw(t, "k")
				if a.has(k[0], k[1]) && rapid.IntRange(0, 3).Draw(t, "del") == 0 {
					a.del(k[0], k[1])
					ref = append(ref, fmt.Sprintf("delete %s/%s@%d", k[0], k[1], a.rvNow()))
				} else {
					typ := "create"
					if a.has(k[0], k[1]) {
						typ = "update"
					}
					a.put(k[0], k[1], drawLabels(t))
					ref = append(ref, fmt.Sprintf("%s %s/%s@%d", typ, k[0], k[1], a.rvNow()))
				}
			}
		}
		settle := func(what string, bound time.Duration) {
			deadline := time.Now().Add(bound)
			for {
				ok := true
				for _, n := range nodes {
					if n.eventCount() < len(ref) {
						ok = false
					}
				}
				if ok {
					break
				}
				if time.Now().After(deadline) {
					break
				}
				time.Sleep(200 * time.Microsecond)
			}
			for _, n := range nodes {
				got := renderEvs(n.eventsFrom(0))
				if !sameStrings(got, ref) {
					fail("%s: subscriber %q holds %d events, %d were published (fewer than one buffer at any time); first difference at %d: received tail %v, published tail %v", what, n.name, len(got), len(ref), firstDiffIndex(got, ref), tail(got, 4), tail(ref, 4))
				}
			}
		}
		publish(rapid.IntRange(1, 5).Draw(t, "warm"))
		settle("before the stall", wedgeBoundNow())
		// one of the next log calls blocks its goroutine for longer than any time constant of the library
		at := int64(rapid.IntRange(1, 60).Draw(t, "stallAtLogCall"))
		stall := 1300 * time.Millisecond
		plog.armStall(at, stall)
		m := rapid.IntRange(5, 40).Draw(t, "events")
		t0 := time.Now()
		publish(m)
		hist = append(hist, fmt.Sprintf("log call #%d from the arming point stalls for %v; %d events published meanwhile", at, stall, m))
		begun := plog.stallBegun()
		if begun {
			// keep publishing a little while the goroutine is still stuck
			for time.Since(t0) < stall/2 {
				time.Sleep(50 * time.Millisecond)
			}
			publish(rapid.IntRange(1, 10).Draw(t, "late"))
		}
		settle("after one library goroutine was stalled at a log call", stall+wedgeBoundNow())
		if !closeBounded(root) {
			fail("WEDGE: Close() did not return")
		}
		cancel()
		if c, dump := waitLibGoroutinesAtMost(before, stall+wedgeBoundNow()); c > before {
			t.Fatalf("C05 violation: %d library goroutines left after Close:\n%s", c-before, dump)
		}
		statCase("C05", hashString(fmt.Sprintf("stall;%d;%s", at, strings.Join(ref, ";"))), plog.stallBegun(), func() interface{} {
			return map[string]interface{}{"mode": "one library goroutine stalled for 1.3 s at a log call while events are published", "stalled_log_call": at, "events": len(ref), "subscribers": len(nodes)}
		}, "stalled_goroutine", fmt.Sprintf("stall_begun_while_publishing=%v", begun))
	})
}

func firstDiffIndex(a, b []string) int {
	for i := 0; i < len(a) && i < len(b); i++ {
		if a[i] != b[i] {
			return i
		}
	}
	if len(a) < len(b) {
		return len(a)
	}
	return len(b)
}
