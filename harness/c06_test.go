//go:build verif

package verifharness

// C06 — a filtered subscription or clone is exactly its filter applied to its
// parent.  Random trees mixing all six attach kinds to depth 3, parent
// histories that move objects in and out of filters, Refilter sequences over
// the 10-filter family, relists at the root after the watch lost events.
//
// quiet mode: a barrier after every operation; exact oracles (world.checkQuiet).
// racy mode: operations back-to-back from several goroutines with schedule
// perturbation; only a final barrier; schedule-independent oracles.

import (
	"fmt"
	"strings"
	"sync"
	"testing"

	metav1 "k8s.io/apimachinery/pkg/apis/meta/v1"
	"pgregory.net/rapid"
)

var treeKeys = [][2]string{{"a", "p"}, {"a", "q"}, {"b", "p"}, {"b", "q"}}
var attachKinds = []string{"sub", "fsub", "dsub", "clone", "fclone", "dclone"}

func drawLabels(t *rapid.T) map[string]string {
	if x := rapid.SampledFrom([]string{"", "1", "2"}).Draw(t, "x"); x != "" {
		return map[string]string{"x": x}
	}
	return nil
}

type treeStats struct {
	nestedFiltered  bool
	refilterReady   bool
	crossedByUpdate bool
	relistAfterDrop bool
	closedInternal  bool
	maxDepth        int
	nops            int
}

// treeOps returns the rapid state-machine actions over world w.
func treeOps(w *world, st *treeStats, maxDepth int, withRelist bool, withClose bool) map[string]func(*rapid.T) {
	ops := map[string]func(*rapid.T){
		"put": func(t *rapid.T) {
			k := rapid.SampledFrom(treeKeys).Draw(t, "k")
			l := drawLabels(t)
			if old, ok := w.view[k[0]+"/"+k[1]]; ok && labelsStr(old.GetLabels()) != labelsStr(l) {
				st.crossedByUpdate = true
			}
			w.put(k[0], k[1], l)
			st.nops++
		},
		"del": func(t *rapid.T) {
			k := rapid.SampledFrom(treeKeys).Draw(t, "k")
			if !w.del(k[0], k[1]) {
				t.Skip("absent")
			}
			st.nops++
		},
		"attach": func(t *rapid.T) {
			var cands []*node
			for _, n := range w.livePublishers() {
				if n.depth() < maxDepth {
					cands = append(cands, n)
				}
			}
			if len(cands) == 0 || len(w.nodes) >= 14 {
				t.Skip("no room")
			}
			p := rapid.SampledFrom(cands).Draw(t, "parent")
			kind := rapid.SampledFrom(attachKinds).Draw(t, "kind")
			fi := rapid.IntRange(0, len(w.fam)-1).Draw(t, "f")
			n := w.attach(p, kind, fi)
			if n.isFiltered() {
				for x := n.parent; x != nil; x = x.parent {
					if x.isFiltered() {
						st.nestedFiltered = true
					}
				}
			}
			if d := n.depth(); d > st.maxDepth {
				st.maxDepth = d
			}
			st.nops++
		},
		"refilter": func(t *rapid.T) {
			fs := w.liveFiltered()
			if len(fs) == 0 {
				t.Skip("no filtered node")
			}
			n := rapid.SampledFrom(fs).Draw(t, "node")
			fi := rapid.IntRange(0, len(w.fam)-1).Draw(t, "f")
			if n.filt >= 0 && w.shouldBeReady(n) {
				st.refilterReady = true
			}
			w.refilter(n, fi)
			st.nops++
		},
	}
	ops["refilterRawAll"] = func(t *rapid.T) {
		// the library's own accept-nothing filter (equal to the construction-time filter of a for-filter node)
		fs := w.liveFiltered()
		if len(fs) == 0 || rapid.IntRange(0, 2).Draw(t, "rarely") != 0 {
			t.Skip("not now")
		}
		n := rapid.SampledFrom(fs).Draw(t, "node")
		w.refilterRawAll(n)
		st.nops++
	}
	ops["refilterRawNull"] = func(t *rapid.T) {
		// the library's own accept-everything filter, unwrapped (for a for-filter node possibly its first filter)
		fs := w.liveFiltered()
		if len(fs) == 0 || rapid.IntRange(0, 2).Draw(t, "rarely") != 0 {
			t.Skip("not now")
		}
		n := rapid.SampledFrom(fs).Draw(t, "node")
		if n.filt >= 0 && w.shouldBeReady(n) {
			st.refilterReady = true
		}
		w.refilterRawNull(n, rapid.IntRange(0, len(rawAcceptAll)-1).Draw(t, "spelling"))
		st.nops++
	}
	if withClose {
		ops["close"] = func(t *rapid.T) {
			var cs []*node
			for _, n := range w.live() {
				if n.kind != "root" {
					cs = append(cs, n)
				}
			}
			if len(cs) == 0 {
				t.Skip("nothing to close")
			}
			n := rapid.SampledFrom(cs).Draw(t, "node")
			if len(n.children) > 0 {
				st.closedInternal = true
			}
			w.closeNode(n)
			st.nops++
		}
	}
	if withRelist {
		ops["drop"] = func(t *rapid.T) {
			if w.dropping > 0 {
				t.Skip("already dropping")
			}
			w.dropNext(rapid.IntRange(1, 3).Draw(t, "n"))
		}
		ops["relist"] = func(t *rapid.T) {
			if len(w.hist) > 0 && strings.HasPrefix(w.hist[len(w.hist)-1], "relist") {
				t.Skip("just relisted")
			}
			dropped := false
			for _, h := range w.hist {
				if strings.Contains(h, "(dropped by the watch)") {
					dropped = true
				}
			}
			w.relist()
			if dropped {
				st.relistAfterDrop = true
			}
			st.nops++
		}
	}
	return ops
}

func TestC06_Quiet(t *testing.T) {
	rapid.Check(t, func(t *rapid.T) {
		cfg := worldCfg{prop: "C06", rootFilter: -1, gatedRelist: true, period: 1500000, stepChecked: true} // 1.5 ms, lists gated
		if rapid.IntRange(0, 3).Draw(t, "rootfilter") == 0 {
			cfg.rootFilter = rapid.IntRange(0, 3).Draw(t, "rf")
		}
		w := newWorld(t, cfg)
		defer w.abort()
		w.checkQuiet()
		st := &treeStats{}
		ops := treeOps(w, st, 3, true, false)
		for name, op := range ops {
			op := op
			name := name
			ops[name] = func(t *rapid.T) {
				op(t)
				if w.dropping == 0 || name == "relist" {
					// while the watch is losing events the controller legitimately lags the server: check against the view
				}
				w.checkQuiet()
			}
		}
		t.Repeat(ops)
		w.checkQuiet()
		w.finish()
		nt := st.nestedFiltered && st.refilterReady && st.crossedByUpdate
		var labels []string
		for k, v := range map[string]bool{"nested_filtered": st.nestedFiltered, "refilter_after_ready": st.refilterReady, "object_crossed_filter_by_update": st.crossedByUpdate, "relist_after_dropped_events": st.relistAfterDrop, "controller_level_filter": cfg.rootFilter >= 0, fmt.Sprintf("depth%d", st.maxDepth): true} {
			if v {
				labels = append(labels, k)
			}
		}
		hist := append([]string(nil), w.hist...)
		statCase("C06", hashString(strings.Join(hist, ";")), nt, func() interface{} { return map[string]interface{}{"mode": "quiet", "history": hist} }, append(labels, "quiet")...)
	})
}

// TestC06_Racy: the same operations fired back-to-back from up to three
// goroutines (server traffic, refilters, attaches) with the perturbing
// logger; a single final barrier; then every live ready node must have
// converged, its idempotent mirror must equal its cache, and no event may
// have been delivered before Ready.
func TestC06_Racy(t *testing.T) {
	rapid.Check(t, func(t *rapid.T) {
		cfg := worldCfg{prop: "C06", rootFilter: -1, perturb: true, seed: rapid.Uint64().Draw(t, "pseed"), racy: true}
		w := newWorld(t, cfg)
		defer w.abort()
		st := &treeStats{}
		// phase 1 (sequential): build a tree
		nattach := rapid.IntRange(1, 7).Draw(t, "nattach")
		for i := 0; i < nattach; i++ {
			var cands []*node
			for _, n := range w.livePublishers() {
				if n.depth() < 3 {
					cands = append(cands, n)
				}
			}
			p := rapid.SampledFrom(cands).Draw(t, "parent")
			n := w.attach(p, rapid.SampledFrom(attachKinds).Draw(t, "kind"), rapid.IntRange(0, len(w.fam)-1).Draw(t, "f"))
			if n.isFiltered() {
				for x := n.parent; x != nil; x = x.parent {
					if x.isFiltered() {
						st.nestedFiltered = true
					}
				}
			}
			// racy mirrors start from the listing at first readiness
		}
		// phase 2: pre-drawn scripts executed concurrently
		type srvOp struct {
			del bool
			k   [2]string
			l   map[string]string
		}
		type rfOp struct {
			node int
			f    int
		}
		nsrv := rapid.IntRange(5, 60).Draw(t, "nsrv")
		srv := make([]srvOp, nsrv)
		for i := range srv {
			srv[i] = srvOp{del: rapid.IntRange(0, 3).Draw(t, "del") == 0, k: rapid.SampledFrom(treeKeys).Draw(t, "k"), l: drawLabels(t)}
		}
		fs := w.liveFiltered()
		var rfs []rfOp
		if len(fs) > 0 {
			nrf := rapid.IntRange(0, 12).Draw(t, "nrf")
			for i := 0; i < nrf; i++ {
				rfs = append(rfs, rfOp{node: rapid.IntRange(0, len(fs)-1).Draw(t, "rn"), f: rapid.IntRange(0, len(w.fam)-1).Draw(t, "rf")})
			}
		}
		// baselines for nodes that are ready now (quiescent: right after a barrier)
		w.barrier()
		w.takeRacyBaselines()
		var wg sync.WaitGroup
		var hmu sync.Mutex
		wg.Add(2)
		go func() {
			defer wg.Done()
			for _, o := range srv {
				hmu.Lock()
				if o.del {
					w.del(o.k[0], o.k[1])
				} else {
					w.put(o.k[0], o.k[1], o.l)
				}
				hmu.Unlock()
			}
		}()
		var rferr error
		go func() {
			defer wg.Done()
			for _, r := range rfs {
				n := fs[r.node]
				f := wrapFilter(w.fam[r.f])
				var err error
				if n.fsub != nil {
					err = n.fsub.Refilter(f)
				} else {
					err = n.fctl.Refilter(f)
				}
				if err != nil {
					rferr = err
					return
				}
				hmu.Lock()
				w.h("refilter %s -> %s (concurrent)", n.name, w.filtName(r.f))
				n.filt = r.f
				st.refilterReady = true
				hmu.Unlock()
			}
		}()
		done := make(chan struct{})
		go func() { wg.Wait(); close(done) }()
		w.waitFor(done, "concurrent operation scripts finishing")
		if rferr != nil {
			w.fail("Refilter on a live node failed: %v", rferr)
		}
		// final barrier and schedule-independent oracles
		w.barrier()
		w.takeRacyBaselines()
		for _, n := range w.live() {
			if n.kind == "mon" || !w.shouldBeReady(n) {
				if n.kind != "mon" && isClosedCh(n.readyCh()) {
					w.fail("node %s is Ready() although a deferred node on its path has no filter yet", n.path())
				}
				continue
			}
			got, err := n.leaf.Cache().List()
			if err != nil {
				w.fail("node %s: List failed: %v", n.path(), err)
			}
			gk, want := keyVersions(got), w.expected(n)
			if !sameStrings(gk, want) {
				w.fail("node %s did not converge: cache %v, reference %v", n.path(), gk, want)
			}
			_, mirror, merr, early, _ := n.snapshotObs()
			if early != "" {
				w.fail("node %s: %s", n.path(), early)
			}
			if merr != "" {
				w.fail("node %s: %s", n.path(), merr)
			}
			if !sameStrings(mirror, gk) {
				w.fail("node %s: mirror built from Events() holds %v but the cache holds %v", n.path(), mirror, gk)
			}
		}
		w.finish()
		hist := append([]string(nil), w.hist...)
		nt := st.nestedFiltered && st.refilterReady
		statCase("C06", hashString("racy;"+strings.Join(hist, ";")), nt, func() interface{} { return map[string]interface{}{"mode": "racy", "history": hist} }, "racy")
	})
}

// takeRacyBaselines: at a quiescent point (right after a barrier) every ready
// node without a baseline takes Cache().List() as its consumer-side
// baseline; later events are applied with the strict algebra.
func (w *world) takeRacyBaselines() {
	for _, n := range w.live() {
		if n.kind == "mon" || n.baseline || !isClosedCh(n.readyCh()) {
			continue
		}
		got, err := n.leaf.Cache().List()
		if err != nil {
			w.fail("node %s: List failed: %v", n.path(), err)
		}
		n.mu.Lock()
		if n.mirror == nil {
			n.mirror = map[string]metav1.Object{}
		}
		for _, o := range got {
			if o.GetNamespace() == markerNS {
				continue
			}
			if old, ok := n.mirror[objKey(o)]; !ok || objVersion(o) > objVersion(old) {
				n.mirror[objKey(o)] = o
			}
		}
		// events received before the baseline are already reflected in it
		// (baselines are taken at quiescent points only)
		n.mirrorOn = true
		n.mu.Unlock()
		n.baseline = true
	}
}
