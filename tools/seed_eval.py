#!/usr/bin/env python3
"""seed_eval.py <seed dir (with patch.diff, notes.json, demo files)> <name> [check ids...]

1. copies the seed into /verif/seeded/<name>/
2. confirms it in a scratch worktree: patch applies, builds, the 75 baseline tests pass with it,
   the demonstration fails with it and passes without it
3. applies it to /repo, runs the given checks (quick tier), restores /repo
Results are written to /verif/seeded/<name>/meta.json."""
import json, os, shutil, subprocess, sys, time, glob

ENV = dict(os.environ, GOFLAGS="-mod=mod", GOPROXY="off", GOSUMDB="off", GOTOOLCHAIN="local")


def run(cmd, cwd, timeout=1200):
    t0 = time.time()
    try:
        r = subprocess.run(cmd, cwd=cwd, env=ENV, shell=isinstance(cmd, str), stdout=subprocess.PIPE, stderr=subprocess.STDOUT, text=True, timeout=timeout)
        return r.returncode, r.stdout, time.time() - t0
    except subprocess.TimeoutExpired as e:
        return 124, (e.stdout or "") + "\nTIMEOUT", time.time() - t0


def count_tests(cwd):
    rc, out, _ = run("go test -json -vet=off -count=1 -timeout 20m ./... 2>/dev/null", cwd)
    p = f = 0
    fails = []
    for line in out.splitlines():
        try:
            e = json.loads(line)
        except Exception:
            continue
        if e.get("Test") and "/" not in e["Test"]:
            if e["Action"] == "pass":
                p += 1
            if e["Action"] == "fail":
                f += 1
                fails.append(e["Package"] + "::" + e["Test"])
    return p, f, fails


def main():
    src, name = sys.argv[1], sys.argv[2]
    checks = sys.argv[3:]
    tier = os.environ.get("SEED_TIER", "quick")
    dst = f"/verif/seeded/{name}"
    os.makedirs(dst, exist_ok=True)
    notes = {}
    if os.path.exists(os.path.join(src, "notes.json")):
        notes = json.load(open(os.path.join(src, "notes.json")))
    for fn in glob.glob(os.path.join(src, "**"), recursive=True):
        if os.path.abspath(src) == os.path.abspath(dst):
            break  # re-evaluation of an already stored seed
        if os.path.isfile(fn) and os.path.basename(fn) != "go.mod":
            rel = os.path.relpath(fn, src)
            os.makedirs(os.path.dirname(os.path.join(dst, rel)) or dst, exist_ok=True)
            shutil.copyfile(fn, os.path.join(dst, rel))
    meta = {"property": notes.get("property"), "summary": notes.get("summary"), "needs_to_manifest": notes.get("needs_to_manifest"),
            "why_it_breaks": notes.get("why_it_breaks"), "demo_file": notes.get("demo_file"), "demo_command": notes.get("demo_command"), "ran": []}
    patch = os.path.join(dst, "patch.diff")
    # --- confirm in a scratch worktree
    wt = f"/tmp/seedcheck/{name}"
    shutil.rmtree(wt, ignore_errors=True)
    subprocess.run(["git", "-C", "/repo", "worktree", "prune"])
    rc, out, _ = run(["git", "-C", "/repo", "worktree", "add", "-q", "--detach", wt, "HEAD"], "/")
    assert rc == 0, out
    try:
        rc, out, _ = run(["git", "apply", patch], wt)
        meta["patch_applies"] = rc == 0
        rc, out, _ = run("go build ./... && go vet ./...", wt)
        meta["builds"] = rc == 0
        p, f, fails = count_tests(wt)
        meta["baseline_with_patch"] = {"pass": p, "fail": f, "failed": fails}
        meta["ran"].append(f"go test ./... with the patch: {p} pass, {f} fail {fails}")
        if f:
            p2, f2, fails2 = count_tests(wt)
            meta["baseline_with_patch_rerun"] = {"pass": p2, "fail": f2, "failed": fails2}
        # demo
        demos = notes.get("demo_file")
        demo_files = demos if isinstance(demos, list) else [demos]
        demo_files = [d.split()[0].rstrip(",;") for d in demo_files if d]  # drop trailing remarks
        demo_pkgs = set()
        for d in demo_files:
            if not d:
                continue
            cand = [os.path.join(dst, d), os.path.join(dst, os.path.basename(d))]
            srcf = next((c for c in cand if os.path.exists(c)), None)
            if srcf is None:
                continue
            os.makedirs(os.path.dirname(os.path.join(wt, d)) or wt, exist_ok=True)
            shutil.copyfile(srcf, os.path.join(wt, d))
            demo_pkgs.add("./" + (os.path.dirname(d) or "."))
        tree = os.path.join(dst, "_tree")
        if os.path.isdir(tree):
            for fn in glob.glob(os.path.join(tree, "**"), recursive=True):
                if os.path.isfile(fn):
                    rel = os.path.relpath(fn, tree)
                    os.makedirs(os.path.dirname(os.path.join(wt, rel)) or wt, exist_ok=True)
                    shutil.copyfile(fn, os.path.join(wt, rel))
        # any *_test.go in the seed that is not placed yet goes to the root
        for fn in glob.glob(os.path.join(dst, "*_test.go")):
            if not os.path.exists(os.path.join(wt, os.path.basename(fn))) and not any(os.path.basename(fn) == os.path.basename(d or "") for d in demo_files):
                shutil.copyfile(fn, os.path.join(wt, os.path.basename(fn)))
                demo_pkgs.add("./.")
        cmd = notes.get("demo_command") or "go test -count=1 ./..."
        import re as _re
        cmd = _re.split(r"\s+\(", cmd)[0].strip()  # drop trailing parenthetical remarks
        if "-count" not in cmd:
            cmd = cmd.replace("go test", "go test -count=1", 1)
        # drop output filters (the exit status must be go test's): cut at the first pipe outside quotes
        q = None
        for i, ch in enumerate(cmd):
            if q:
                q = None if ch == q else q
            elif ch in "'\"":
                q = ch
            elif ch == "|":
                cmd = cmd[:i].strip()
                break
        cmd = _re.sub(r"\s+2>&1\s*$", "", cmd)
        rc_with, out_with, _ = run(cmd, wt, timeout=900)
        meta["demo_with_patch_fails"] = rc_with != 0 and ("FAIL" in out_with)
        meta["ran"].append(f"{cmd} with the patch: exit {rc_with}: {out_with.strip().splitlines()[-3:] if out_with.strip() else ''}")
        run(["git", "apply", "-R", patch], wt)
        rc_wo, out_wo, _ = run(cmd, wt, timeout=900)
        meta["demo_without_patch_passes"] = rc_wo == 0 and ("ok" in out_wo)
        meta["ran"].append(f"{cmd} without the patch: exit {rc_wo}: {out_wo.strip().splitlines()[-2:] if out_wo.strip() else ''}")
    finally:
        subprocess.run(["git", "-C", "/repo", "worktree", "remove", "--force", wt])
        shutil.rmtree(wt, ignore_errors=True)
    # --- run the checks against it
    meta["checks"] = {}
    if checks and os.environ.get("SEED_SCRATCH"):
        # evaluate against a scratch worktree (other checks may be running against /repo itself)
        wt2 = f"/tmp/seedcheck/{name}-run"
        shutil.rmtree(wt2, ignore_errors=True)
        subprocess.run(["git", "-C", "/repo", "worktree", "prune"])
        rc, out, _ = run(["git", "-C", "/repo", "worktree", "add", "-q", "--detach", wt2, "HEAD"], "/")
        assert rc == 0, out
        rc, out, _ = run(["git", "apply", patch], wt2)
        assert rc == 0, out
        ENV["VERIF_REPO_OVERRIDE"] = wt2
        try:
            for c in checks:
                rc, out, took = run(["python3", "run.py", c, tier], "/verif", timeout=3600)
                lines = [l for l in out.splitlines() if l.startswith("VIOLATION") or "violation" in l.lower() or l.startswith(c)]
                meta["checks"][c] = {"tier": tier, "exit": rc, "seconds": round(took, 1), "detected": rc == 1, "lines": [l[:400] for l in lines[:4]], "against": "scratch worktree with the patch applied"}
                print(f"  {c} {tier}: exit {rc} in {took:.0f}s {'DETECTED' if rc == 1 else 'missed' if rc == 0 else 'INFRA'}")
                for l in lines[:2]:
                    print("     ", l[:300])
        finally:
            ENV.pop("VERIF_REPO_OVERRIDE", None)
            subprocess.run(["git", "-C", "/repo", "worktree", "remove", "--force", wt2])
            shutil.rmtree(wt2, ignore_errors=True)
    elif checks:
        st = subprocess.run(["git", "-C", "/repo", "status", "--short"], stdout=subprocess.PIPE, text=True).stdout.strip()
        assert st == "", "/repo not clean: " + st
        rc, out, _ = run(["git", "-C", "/repo", "apply", patch], "/")
        assert rc == 0, out
        try:
            for c in checks:
                rc, out, took = run(["python3", "run.py", c, tier], "/verif", timeout=3600)
                lines = [l for l in out.splitlines() if l.startswith("VIOLATION") or "violation" in l.lower() or l.startswith(c)]
                meta["checks"][c] = {"tier": tier, "exit": rc, "seconds": round(took, 1), "detected": rc == 1, "lines": [l[:400] for l in lines[:4]]}
                print(f"  {c} {tier}: exit {rc} in {took:.0f}s {'DETECTED' if rc == 1 else 'missed' if rc == 0 else 'INFRA'}")
                for l in lines[:2]:
                    print("     ", l[:300])
        finally:
            subprocess.run(["git", "-C", "/repo", "checkout", "--", "."])
            subprocess.run(["git", "-C", "/repo", "clean", "-fdq"])
    old = {}
    mp = os.path.join(dst, "meta.json")
    if os.path.exists(mp):
        old = json.load(open(mp))
        oc = old.get("checks", {})
        oc.update(meta["checks"])
        meta["checks"] = oc
    json.dump(meta, open(mp, "w"), indent=1)
    print(json.dumps({k: meta[k] for k in ("patch_applies", "builds", "baseline_with_patch", "demo_with_patch_fails", "demo_without_patch_passes")}, indent=None))


if __name__ == "__main__":
    main()
