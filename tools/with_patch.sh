#!/bin/bash
# usage: with_patch.sh <patch.diff> <command...>
# Applies the patch to /repo, runs the command, and always restores /repo.
set -u
patch="$1"; shift
if ! git -C /repo diff --quiet; then echo "refusing: /repo has local changes"; exit 3; fi
git -C /repo apply "$patch" || { echo "patch does not apply"; exit 3; }
"$@"
rc=$?
git -C /repo checkout -- . 
git -C /repo clean -fdq
exit $rc
