#!/bin/bash
# usage: run_all.sh <quick|thorough> [ids...]
# Runs the registered checks one after another on the current /repo tree.
tier="${1:-quick}"; shift
cd /verif
ids="$@"
if [ -z "$ids" ]; then ids=$(python3 -c "import json;print(' '.join(c['property_id'] for c in json.load(open('MANIFEST.json'))['checks']))"); fi
fail=0
for id in $ids; do
  s=$(date +%s)
  out=$(python3 run.py $id $tier 2>&1); rc=$?
  e=$(date +%s)
  echo "[$id rc=$rc $((e-s))s] $(echo "$out" | tail -1)"
  if [ $rc -ne 0 ]; then fail=1; echo "$out" | tail -5; fi
done
exit $fail
