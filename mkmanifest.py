#!/usr/bin/env python3
"""Regenerates MANIFEST.json from the table below (keeps it valid and in sync
with run.py).  Usage: python3 mkmanifest.py"""
import json
import os

ROOT = os.path.dirname(os.path.abspath(__file__))

HOOK_COMMITS = ["fd7931a", "af3bf8c", "fec6bea"]
FIX_COMMITS = ["908afde", "7500af7", "0c458dd", "083bfe9", "1cdef64", "d4e0d22", "9842718"]

ALL = [f"C{i:02d}" for i in range(1, 21)]

# property -> (category, technique, level text, level note, design ref)
CHECKS = {
    "C09": ("exploration",
            "stateful property testing (rapid) of all nine joins over fake API servers and typed base controllers; oracle = reference selection (C19 ownership predicates) over the servers' state, strict mirror, readiness, goroutine footprint and base liveness after Close",
            "For a join drawn per case the harness owns both (three for IngressPods) API servers, gates the bases' first lists in generated combinations, interleaves source and destination histories, and cycles create/close of joins over long-lived bases. After a destination-side double marker the join cache must converge on its own to the reference selection; after a source-side probe barrier the strict mirror of its events must equal its cache; the join must not be ready or emit before both bases are ready; closing it - also before it can have become ready - must bring the count of library-created goroutines back to the bases' own footprint and leave each base delivering fresh events; a join over an empty source collection must still become ready, selecting nothing.",
            "RCPods is exercised in a single namespace because of the recorded C19 finding; a first differing comparison is given the wedge bound to converge (quiescent-state property).",
            "DESIGN.md section 4, C09"),
    "C20": ("translation_validation",
            "template re-instantiation + structural AST comparison (source), typed-vs-untyped differential execution of generated scenarios against a shared reference model (behaviour), request-path differential against the API conventions over loopback HTTP (clients)",
            "The generated typed packages and joins are treated as outputs of a translation (template + type -> source): the harness re-executes every instantiation listed in the Makefile and compares ASTs declaration by declaration; behaviourally the same generated scenarios run through each typed package and through the untyped core and must agree with each other and with the reference model, with foreign-typed objects skipped rather than crashing; each typed client's List/Watch requests are compared with the API-conventions table and its list response must decode to the right type; the typed subscription wrapper is additionally checked in isolation over a harness-owned parent subscription (hook pod.VerifNewSubscription): exactly the parent's events of the type, in order, also when the parent is already done with a backlog.",
            "Instantiation is re-implemented in the harness (identifier substitution / text/template execution), goimports' import block is ignored; behaviour is sampled (rapid), source and the 12x2 request table are complete.",
            "DESIGN.md section 4, C20"),
    "C03": ("fault_enumeration",
            "property-based fault injection (rapid-generated server histories, watch fault plans and list schedules against a fake API server with gated lists and held Watch calls); oracle = per-key allowed-set at every completed relist + strict subscriber mirror + exact convergence after one final relist; plus generated backlog scenarios (controller kept busy while 20-300 watch events and a relist result pile up): convergence, continued relisting, Close",
            "The harness owns the client: it decides when each list returns and with which snapshot (taken at call or at release), what the watch delivers, drops, duplicates or injects, and it holds the Watch call that follows each applied list so that the cache can be inspected exactly at the completion of that relist. Every key must hold a value from the allowed set derived from the list and the in-flight events, the unfiltered subscriber's strict mirror must converge to the cache, and once the server stops changing one further relist must give exact equality — also with a watch that never connects.",
            "Completion of a relist is observed as the Watch(resourceVersion = list RV) call; the allowed set is a superset of the reachable outcomes (sound, slightly permissive).",
            "DESIGN.md section 4, C03"),
    "C04": ("fault_enumeration",
            "property-based fault injection on the watch path with relists disabled (refresh period 1 h); oracle = marker delivery through the reconnected watch, exact cache/server equality, strict subscriber mirror, resume-version discipline, single List call",
            "Generated histories interleave server changes with stream closes (also right after bursts and with a sleeping controller so the watcher's buffer is non-empty at the disconnect and even at the reconnect), object-less frames, connect-error streaks and status/bookmark/unknown frames. Because relists cannot help, a lost or discarded event shows up as a marker that never arrives or as a cache/server or mirror/cache difference; the fake's record of Watch() resourceVersions is checked to be non-decreasing, never beyond what was sent, and never below what the subscriber had already received.",
            "Pays the library's constant 1 s retry delay per reconnect (not hookable add-only); throughput comes from many idle processes. Harness-induced buffer overflows are detected through the library's own log and discarded.",
            "DESIGN.md section 4, C04"),
    "C13": ("exploration",
            "complete grid over (period, list latency, consumption delay) + rapid triples and shutdown instants, both runtime timer modes; oracle = fake client's call record (no overlap, gap >= 0.9 P, bounded liveness, prompt Close); plus generated list faults (kind x error value x k): afterwards the controller has stopped or is still relisting",
            "Each configuration runs a real controller against a fake client whose List sleeps L and whose watch event, published just before a list returns, makes the controller spend D before consuming the result. The call record must show one list at a time, gaps of at least 0.9 P, continued listing (wedge detection with a generous, re-confirmed bound) and a prompt Close at any instant of the cycle. Exploration: real time, so only lower bounds and wedges are asserted.",
            "No injectable clock: upper bounds are not correctness signals. Both GODEBUG asynctimerchan modes are run because the harness module's Go version differs from kcache's.",
            "DESIGN.md section 4, C13"),
    "C14": ("fault_enumeration",
            "enumerated list-failure kinds x failing list index x generated subscriber trees, and generated watch-failure sequences; oracle = fail-stop with cause for list failures, survival and convergence for watch failures, clean Error() for deliberate Close",
            "Five kinds of bad list results (the List-error kind with twelve generated error values: plain, context.Canceled/DeadlineExceeded bare and wrapped, EOFs, a temporary net error, API status errors) are injected at the k-th list for k = 1..5 under generated trees: the controller must stop with a non-nil Error() carrying the cause, be Ready only if an earlier list succeeded, and take its whole subtree down without leaks. Watch connect-error streaks, abrupt closes and non-object frames at generated positions must leave the controller running (Error() == still running) and converging through the watch; Close() must leave Error() nil.",
            "Bounded liveness for Done(); ctx-cancel error value is only required to be nil or context.Canceled.",
            "DESIGN.md section 4, C14"),
    "C05": ("exploration",
            "stateful property testing (rapid) of subscriber trees with burst-paced streams under schedule perturbation; oracle = every leaf log is a suffix of the reference stream",
            "Generated Subscribe/Clone trees (depth <= 3) receive a generated stream published in bursts of at most EventBufsiz/4 in-flight events; subscribers attach at generated moments and read with generated delays while the logger, GOMAXPROCS and consumer delays perturb the schedule. Each leaf's log must be exactly a suffix of the published sequence starting no later than its creation point (no gap, duplicate or reordering) and a cache read right after each event must not be older than the event.",
            "Interleavings are perturbed, not enumerated; the in-flight bound of the property is enforced by the harness (cases where the harness itself overran a buffer are discarded and counted).",
            "DESIGN.md section 4, C05"),
    "C10": ("exploration",
            "stateful property testing (rapid) with stalled/slow/blocked consumers; oracles = barrier completion, witness agreement, buffer-capacity lower bound, in-order subsequence",
            "Generated trees in which a generated subset of plain subscribers never read, monitor handlers block and filtered subscriptions are left unread, while streams of up to 4x the buffer size are published. Barriers over the healthy nodes must complete (a blocked publisher shows up there), every healthy cache and strict mirror must be current at each barrier, healthy siblings must agree with their publisher's witness, the cache of an unread filtered subscription must stay current, and every released consumer must deliver at least min(sent, EventBufsiz) events as an in-order subsequence of what was sent. Variations: partial resume after an overflow, resume under load, a stalled subscriber closed mid-burst, streams of up to 150 buffers, a stalled subscriber that meets the controller's shutdown with its buffer unread, and a structural check that no library goroutine is parked in a hand-over while consumers are away.",
            "No upper bound and no prefix-ness is demanded of a stalled consumer. Typed subscriptions as stalled consumers: see C20.",
            "DESIGN.md section 4, C10"),
    "C11": ("exploration",
            "stateful property testing (rapid): tree state machine with close operations + close-moment scenarios (before ready, mid-stream, during Refilter, during relist) and mechanisms (Close, context cancel, list error); oracle = closed set equals the subtree, survivors fully functional",
            "Every node kind (six attach kinds, monitors, root) is closed at quiet and at racing moments; afterwards exactly the subtree of the closed node must be done with its Events() closed, and every other node must keep Done/Events open, converge at the next barrier with an exact mirror and accept further Subscribe/Refilter/traffic. Root closures by Close, context cancellation and five kinds of fatal list results must take everything down and leave no library goroutine. A further scenario family fires the trigger while the controller is busy (its own filter held inside the cache while the k-th list or a watch event is applied, the other components having already stopped on the context) and then lets it carry on: the cascade must still reach every descendant.",
            "Joins as tree members are covered by C09's close oracle. Interleavings are perturbed, not enumerated.",
            "DESIGN.md section 4, C11"),
    "C12": ("fault_enumeration",
            "shutdown-point enumeration over rapid-generated workloads (the same workload re-run with the trigger fired after every step index) with racing API calls, goroutine-leak detector and post-shutdown API sweep",
            "For each generated workload every step index is used as a shutdown point on a fresh world, with triggers Close, 4 concurrent Close calls, context cancellation and list errors; workloads force the states named in the property (not yet ready, relist pending, reconnect timer pending, stalled consumers, refilters). Close()/Done() must complete within the wedge bound, the leak detector (goroutines created by library frames) must reach zero with the context still live, racing and post-shutdown API calls must return ErrNotRunning or a value, and objects obtained while racing must become done. fault_enumeration: the crash/shutdown points of each workload are enumerated completely; workloads themselves are sampled.",
            "Bounded liveness: 10 s + 25 s confirmation against sub-millisecond normal latencies. The fake client honours context cancellation (premise of the property).",
            "DESIGN.md section 4, C12"),
    "C16": ("exploration",
            "stateful property testing (rapid) with a recording handler and a witness subscription; oracle = init-first/once, 1:1 callback/event correspondence, serial execution, silence after Done",
            "Monitors on root, clone and filtered-clone publishers with fast, slow and blocked handlers are closed before readiness, mid-stream, after the stream or never, while generated streams flow; the recorded callback log is compared one for one (type and object identity) with the events a witness subscription created back-to-back received, OnInitialize must come first, once, with the publisher's content at readiness, callbacks must never overlap nor be entered after Done was observed, and a publisher that dies before readiness must cause no callback.",
            "Typed monitors are compared against untyped ones in C20.",
            "DESIGN.md section 4, C16"),
    "C06": ("exploration",
            "model-based stateful property testing (rapid state machine over a tree of real kcache nodes fed by a fake API server), double-marker barriers, reference-predicate conjunction + strict event-replay mirrors; quiet and perturbed-schedule modes",
            "Generated trees of all six attach kinds (depth <= 3) over a real controller; every operation (server change, attach, Refilter, lost watch events + gated relist) is followed by a marker barrier and then every live node's cache is compared with the conjunction of reference predicates on its path applied to the controller's view, and a consumer-side strict mirror built from its Events() with its cache. A second mode runs server traffic and Refilter scripts concurrently under logger-driven schedule perturbation and judges convergence and stream well-formedness at a final barrier. Exploration: histories and interleavings are sampled; orderings that pass through collaborators (list vs watch, refilter vs event) are sequenced by the harness itself.",
            "Filters are wrapped so barrier markers (namespace zz) pass; oracles ignore that namespace. Interleavings inside the library are perturbed, not enumerated.",
            "DESIGN.md section 4, C06"),
    "C07": ("exploration",
            "bounded-exhaustive enumeration (256 contents x 512 filter triples) + rapid chains; oracle = exact event multiset / identity / restoration between two barriers",
            "Every parent content over the 4-key universe and every ordered triple of the 8-filter family is executed against a real filtered subscription as a chain of Refilter calls; each call's events between two double-marker barriers must be exactly one Delete per cached object the new filter rejects and one Create per newly accepted parent object, retained objects keep their identity, equal filters emit nothing, and returning to the first filter restores its view; the same over all ordered pairs of a 19-member composite family (duplicated / permuted / replaced children, empty composites, double negation), and rapid chains over family filters and generated structurally-nearby filters on deeper trees. The quick tier already runs both complete enumerations.",
            "Premise of the property is enforced by the harness: the node is ready and no parent event is in flight during a checked Refilter.",
            "DESIGN.md section 4, C07"),
    "C08": ("exploration",
            "bounded-exhaustive enumeration of operation orders (46656 orders x 12 variants) against a readiness model + rapid perturbed-schedule orders with failing first lists",
            "The first list is gated so that 'parent becomes ready' is a harness step; every order of length 6 over the six operation kinds of the property is run for immediate/deferred x subscription/clone x depth 1..3 and after every step Ready() must be closed exactly for the nodes the readiness model names, no event may have been sent before Ready, the listing taken at the instant Ready is observed must be the synced content. Random orders without barriers under schedule perturbation add the failing-first-list clause. Quick samples every 40th order; thorough enumerates all.",
            "Negative readiness is asserted at arbitrary instants, positive readiness with a wedge bound (10 s, confirmed once with 25 s more).",
            "DESIGN.md section 4, C08"),
    "C15": ("exploration",
            "property-based concurrency testing (rapid-generated writer scripts, concurrent readers, interval linearizability oracle) under the Go race detector",
            "Generated writer scripts produce a known sequence of complete cache states; concurrent readers bracket every List/Get with the writer's progress counters and each result must equal the state at some index inside the bracket (interval linearizability), with per-reader monotonicity and caller-owned slices; the binary is built with -race so any data race on cache state fails the check. Exploration: schedules are sampled (GOMAXPROCS variation, reader yields), not enumerated.",
            "Schedules come from the Go scheduler; a race needing an interleaving the runs never hit is missed. Uses the add-only hook NewVerifCache.",
            "DESIGN.md section 4, C15"),
    "C01": ("exploration",
            "model-based stateful property testing (rapid state machine) + bounded-exhaustive state x operation enumeration against a reference cache model; thorough tier adds a native coverage-guided fuzz campaign over the same property (rapid.MakeFuzz)",
            "The real cache actor is driven by generated sync/update/refilter histories (duplicates, stale, zero, negative and non-numeric versions, empty lists) and compared with a reference map model after every operation through List and Get; the universe named in the property (2 keys x 6 versions x 2 labels x 4 filters) is enumerated completely in the thorough tier: every single next operation from every reachable state. A crash of the cache goroutine kills the worker and is reported as a violation with the operation trace. Exploration: the cache is a sequential actor, so a reference model plus search over histories is the natural deciding method; it is exhaustive only for the stated small universe.",
            "Uses the add-only hook NewVerifCache (tag verif). The model is relaxed where the statement is silent (duplicate keys in one list, non-numeric versions, stale deletes).",
            "DESIGN.md section 4, C01"),
    "C02": ("exploration",
            "stateful property testing (rapid) + bounded-exhaustive enumeration; oracle = strict event-replay algebra (round trip before + events == after) and the no-op-input clause; thorough tier adds a native coverage-guided fuzz campaign (rapid.MakeFuzz)",
            "For every generated or enumerated mutation the events returned are replayed with the strict algebra over the content read before the call and must reproduce, by object identity, the content read after it; unchanged content must come with zero events. Independent of C01's model (both sides are read from the real cache).",
            "Uses the add-only hook NewVerifCache (tag verif); order inside a batch is free as long as sequential replay is well-formed, as the property says.",
            "DESIGN.md section 4, C02"),
    "C17": ("exploration",
            "property-based testing (rapid, mutation-biased pair generator) + bounded-exhaustive pair enumeration + native fuzzing in the thorough tier; oracle = forall-object Accept agreement of the real filters",
            "For every generated or enumerated pair of filter terms that the library reports equal (FiltersEqual or Equals) both real filters are evaluated on the whole object universe and must agree; rebuilt comparable terms must compare equal; workload filters must compare equal under permutations of their sources. All ordered pairs of depth<=1 terms over 100+ atoms are enumerated (thorough: including binary And/Or over all atoms), deeper terms are sampled with a generator biased towards near-miss pairs. Exploration: soundness is a universally quantified implication over a finite universe, which search decides directly on that universe and samples beyond it.",
            "Soundness is judged on the finite object universe described in the evidence; an unsound pair whose disagreement needs an object outside it would be missed. Incompleteness of equality is counted, not failed.",
            "DESIGN.md section 4, C17"),
    "C19": ("exploration",
            "bounded-exhaustive enumeration of workload source sets x candidate objects + rapid generation + native fuzzing in the thorough tier; oracle = reference ownership predicates",
            "Every source set of up to 2 (thorough: 3) workloads per kind over the selector/template/namespace universe named in the property is built into the real PodsFilter/ServicesFilter and compared with reference ownership predicates on every candidate pod/service; node, involved-object and selector-match filters are enumerated over their argument universes against objects of the right and of foreign kinds. The RC namespace defect is a recorded known finding matched by a structural signature.",
            "Trusts the reference predicates (terms_test.go) as the statement of Kubernetes ownership; universe limited to 2-3 namespaces, 2 label keys, 2-3 values.",
            "DESIGN.md section 4, C19"),
    "C18": ("exploration",
            "property-based testing (rapid) + bounded-exhaustive term enumeration + native fuzzing in the thorough tier, against an independent reference evaluator",
            "Every generated or enumerated filter term is built with the library's constructors and compared, object by object, with an evaluator written from the property text and the Kubernetes selector documentation. Enumerates all terms of depth <= 1 over 32 atoms (thorough: also depth 2 with binary And/Or) against the complete 144-object universe and samples depth-3 terms randomly. Exploration is the right level: the domain is finite per depth and cheap to evaluate, so search against a model is both strong and honest; nothing is proved beyond the enumerated universe.",
            "Trusts the harness evaluator (terms_test.go) as the statement of boolean / label-selector semantics; label keys and values are restricted to a valid universe; NSName entries with both fields empty are outside the contract.",
            "DESIGN.md section 4, C18"),
}

NOT_APPLICABLE = {
}


def main():
    checks = []
    for pid in ALL:
        if pid not in CHECKS:
            continue
        cat, tech, text, note, ref = CHECKS[pid]
        checks.append({
            "property_id": pid,
            "quick_cmd": f"python3 run.py {pid} quick",
            "thorough_cmd": f"python3 run.py {pid} thorough",
            "evidence_file": f"evidence/{pid}.json",
            "replay_cmd_template": "python3 run.py --replay {path}",
            "engine": "harness",
            "level_claimed": {"category": cat, "text": text, "design_ref": ref},
            "level_note": note,
            "technique": tech,
        })
    na = []
    for pid in ALL:
        if pid in CHECKS:
            continue
        reason = NOT_APPLICABLE.get(pid, "check not built yet in this revision of /verif (planned: see DESIGN.md section 4); not a statement that the technique cannot apply")
        na.append({"property_id": pid, "reason": reason})
    m = {
        "version": 1,
        "setup_cmd": "python3 run.py --setup",
        "hooks": {
            "guard": "verif",
            "enable": "go build tag: the harness is built with `go test -c -tags verif` in /verif/harness, whose go.mod replaces github.com/boz/kcache with /repo (current working tree)",
            "baseline_off_cmd": "cd /repo && GOFLAGS=-mod=mod GOPROXY=off GOSUMDB=off go test -json -vet=off -count=1 -timeout 25m ./...",
            "source_commits": HOOK_COMMITS,
            "add_only": True,
        },
        "engines": [
            {"name": "harness", "path": "harness/", "serves_properties": sorted(CHECKS.keys()),
             "kind_free_text": "Go test module (pgregory.net/rapid v1.3.0 state machines and properties, bounded-exhaustive enumerators, native go fuzz targets in the thorough tier) driven by run.py, which shards, seeds, merges per-case statistics into evidence/<id>.json and maps failures to VIOLATION lines"},
        ],
        "checks": checks,
        "not_applicable": na,
        "notes": "Unguarded repairs of genuine defects in /repo (fix: commits): " + ", ".join(FIX_COMMITS) + ". run.py <id> <quick|thorough> honours VERIF_SEED. Exit 0 = held, 1 = VIOLATION line printed, 2 = infrastructure trouble. known_findings.json lists recorded defects (KNOWN-FINDING lines) and repaired ones (fixed: entries).",
    }
    with open(os.path.join(ROOT, "MANIFEST.json"), "w") as f:
        json.dump(m, f, indent=1)
        f.write("\n")


if __name__ == "__main__":
    main()
