#!/usr/bin/env python3
"""Driver for the kcache property-based verification harness.

  run.py <Cxx> <quick|thorough>     run the check of one property
  run.py --replay <file>            re-execute a saved failing case
  run.py --setup                    warm the build cache (MANIFEST.setup_cmd)

Exit codes: 0 = property held on everything explored (known findings are
printed as KNOWN-FINDING lines); 1 = violation (a line
"VIOLATION property=<id> replay=<path>" is printed); 2 = infrastructure
trouble (build failure, budget timeout, worker death without a Go panic in
library frames).
"""
import array
import hashlib
import json
import os
import re
import shutil
import subprocess
import sys
import time

ROOT = os.path.dirname(os.path.abspath(__file__))
HARNESS = os.path.join(ROOT, "harness")
BUILD = os.path.join(ROOT, ".build")
EVIDENCE = os.path.join(ROOT, "evidence")
REPLAYS = os.path.join(ROOT, "replays")
# Development aid (never used by the registered commands): VERIF_REPO_OVERRIDE=<dir> builds the
# harness against a scratch copy of the repository instead of /repo and keeps build output,
# evidence and replays of such runs under /tmp, so that seeded changes can be evaluated while
# other checks run against /repo itself.
OVERRIDE = os.environ.get("VERIF_REPO_OVERRIDE")
if OVERRIDE:
    _o = os.path.join("/tmp/verif-override", hashlib.sha1(OVERRIDE.encode()).hexdigest()[:10])
    BUILD, EVIDENCE, REPLAYS = os.path.join(_o, "build"), os.path.join(_o, "evidence"), os.path.join(_o, "replays")
NCPU = os.cpu_count() or 4

GOENV = {
    "GOFLAGS": "-mod=mod",
    "GOPROXY": "off",
    "GOSUMDB": "off",
    "GOTOOLCHAIN": "local",
}


def env_base():
    e = dict(os.environ)
    e.update(GOENV)
    return e


# --------------------------------------------------------------------------
# Job table.  A job is one test-binary invocation pattern:
#   test     : -test.run regexp (anchored by the driver)
#   checks   : rapid case count per shard (None for enumerative tests)
#   shards   : number of processes (rapid: different PRNG values; enumerative:
#              VERIF_SHARD=i/n splits the space)
#   race     : use the -race binary
#   env      : extra environment
#   procs    : GOMAXPROCS per shard (list cycled over shards) or None
#   timeout  : seconds for the whole job
# --------------------------------------------------------------------------

def J(test, checks=None, shards=1, race=False, env=None, procs=None, timeout=900, count=1, shrink="20s", steps=None, par=None, fuzztime=None):
    # par: allowed number of concurrent processes for this property when its cases are mostly idle
    # (real-time waits such as the library's 1 s watch retry delay)
    return dict(test=test, checks=checks, shards=shards, race=race, env=env or {}, procs=procs,
                timeout=timeout, count=count, shrink=shrink, steps=steps, par=par, fuzztime=fuzztime)


PROPS = {
    "C20": dict(
        level="translation_validation",
        rule="three differentials. (a) source: every instantiation command of the Makefile (12 genny lines, 8 join lines) is re-executed in the harness (AST substitution of ObjectType in types/gen/template.go; the text/template literal extracted from join/gen/main.go) and compared declaration by declaration, structurally on the go/ast, with the committed generated*.go. (b) behaviour: rapid scenarios (tree of all attach kinds + monitors, refilters, closes, server traffic of the package's type plus foreign-typed objects, typed or raw list results) run side by side on <type>.BuildController (through generated adapters) and on kcache.NewController; each world is checked against the reference model after every operation and the two are compared node by node per step (events as multisets restricted to the type, readiness, lifecycle, monitor callbacks). (c) requests: all 12 typed clients x {all namespaces, one namespace} plus rapid namespaces/resourceVersions against a loopback API server; method, path and query of List and Watch are compared with a table written from the Kubernetes API conventions and the List response must decode into the type's list. Non-trivial (behaviour) = scenario with a filtered clone, a refilter and a foreign-typed object; source and request cases all count; distinct = (type, scenario hash) / instantiation / (type, namespace, rv).",
        assumptions=["foreign-typed objects never share a namespace/name with an object of the type (one collection holds one type)", "a typed monitor may surface a foreign-typed event as no callback or as a callback with nil; a non-nil object of the wrong type or a panic is a violation", "cluster-scoped nodes are only requested with the empty namespace"],
        quick=[J("TestC20_Source"), J("TestC20_RequestsAll"), J("TestC20_Requests", checks=150), J("TestC20_Behaviour", checks=250, shards=6), J("TestC20_TypedSubscription", checks=3000, shards=2), J("TestC20_Handlers")],
        thorough=[J("TestC20_Source"), J("TestC20_RequestsAll"), J("TestC20_Requests", checks=3000, shards=2), J("TestC20_Behaviour", checks=12000, shards=12, timeout=2400), J("TestC20_TypedSubscription", checks=60000, shards=8), J("TestC20_Handlers")],
    ),
    "C09": dict(
        level="exploration",
        rule="rapid state machines for each of the eight generated joins and IngressPods (drawn per case): one fake API server per side (three for the double join), typed base controllers whose first lists are gated in generated combinations and released in generated order, the join created before the releases; operations: source put/delete over 2 namespaces x 3 names with selectors {absent, empty, labels, In/NotIn/Exists/DoesNotExist, template labels} (ingress: default backend and paths), destination put/delete over 2 namespaces x 6 names x label maps, (double join) service put/delete, check, and create/close cycles of the join over the long-lived bases. Oracle at checks: after a destination-side double marker the join cache must converge, without any further source event, to the reference selection (bounded wait); then, after a source-side probe barrier: join cache == reference selection computed with the C19 ownership predicates over the servers' state; strict mirror of the join's Events() == cache; join not Ready() and silent before both bases are ready; after Close(): Done, goroutines created by the library back at the bases' own footprint, each base still delivers a fresh event to a fresh subscriber; at the end zero library goroutines. Non-trivial = source changes that add and source changes that remove destination objects (in one step or in separate steps) and >= 1 create/close cycle; distinct = (join, history).",
        assumptions=["RCPods: sources and destination objects are kept in one namespace because of the recorded finding C19/rc-podsfilter-ignores-namespace (excluded by construction, counted)", "a check whose first comparison differs is given until the wedge bound to converge (the property speaks of the quiescent state); persistent differences are violations"],
        quick=[J("TestC09_Joins", checks=90, shards=12, procs=[2, 4, 8, 16])],
        thorough=[J("TestC09_Joins", checks=2500, shards=16, procs=[1, 2, 4, 8, 16], timeout=2400)],
    ),
    "C14": dict(
        level="fault_enumeration",
        rule="(a) list faults: failure kind in {List error, (nil,nil), non-list object, meta.List without Items, list of non-objects} x k in 1..5 (the k-th list fails; lists gated, period 1.5 ms) x a rapid-generated tree of 0-7 descendants (all attach kinds, monitors) built before or after the first list, with traffic and checked barriers between the successful lists; oracle: Done() closes, Error() non-nil (errors.Is the injected error), Ready() closed iff k > 1, lists 1..k-1 applied, every descendant done with Events() closed, no library goroutine left. (a') the same five failure kinds injected into a list that returns while the controller is kept busy for 2-8 refresh periods (its filter blocks on a harness channel while applying a watch event): after release the controller must stop with the cause. (b) watch faults: histories with up to 2 (thorough 4) faults from {abrupt close, frame without object, streak of 1-2 connect errors} plus per-session plans of status / bookmark / unknown-type frames; oracle: not done and Error()==ErrRunning right after the fault and after the reconnect, the tree converges through the watch (checked barrier), one List call only; then Close() => Error()==nil, or context cancel => Done and Error() nil or context.Canceled. Non-trivial = list fault at k >= 2 with >= 3 descendants, or >= 2 different watch fault kinds plus non-object frames; distinct = hash of (fault, k, history).",
        assumptions=["after context cancellation only 'nil or wraps context.Canceled' is demanded of Error() (the statement constrains deliberate Close only)", "watch-fault cases pay the library's 1 s retry delay per reconnect and run in many parallel processes"],
        quick=[J("TestC14_ListFaults", checks=300, shards=4), J("TestC14_StalledController", checks=40, shards=6, par=32), J("TestC14_WatchFaults", checks=2, shards=32, par=48, shrink="5s")],
        thorough=[J("TestC14_ListFaults", checks=10000, shards=8, timeout=1800), J("TestC14_StalledController", checks=600, shards=16, par=32, timeout=1800), J("TestC14_WatchFaults", checks=30, shards=64, par=64, env={"VERIF_C14_MAXFAULTS": "4"}, timeout=2400, shrink="5s")],
    ),
    "C13": dict(
        level="exploration",
        rule="(a) complete grid of 63 (period P, list latency L, result-consumption delay D) triples: P in {4,10,25} ms x L in P*{0,.5,.9,1,1.1,2,5} x D in P*{0,1,2}, each observed for >= 6 lists and then closed; (b) rapid triples (P 2-30 ms, L 0-5P, D 0-2.5P) with Close() at a generated instant of the list/tick cycle; (c) shutdown (Close or context cancel) while a list with a latency of 2.5-4 s is in flight: the controller must be down within 1 s and the fake must have seen the List call cancelled. L is produced by the fake client sleeping (ctx-aware); D by publishing a watch event just before a list returns whose controller-level filter evaluation sleeps D, so the result waits to be consumed. Both runtime timer modes (GODEBUG asynctimerchan=0 and =1). Oracle from the fake's call record: never two List calls in flight; start(i+1) - return(i) >= 0.9*P; at least the expected number of lists within 10*(1.1P+L+D)+2s (re-checked once with 3x the bound); Close() returns within the wedge bound; no library goroutine left. Non-trivial = L + D > 0.9*P (the timer fires before the previous result is consumed); distinct = (P, L, D, close instant, timer mode).",
        assumptions=["real time: no clock is injectable; only lower bounds on gaps and wedge detection are asserted (load can only lengthen a gap)"],
        quick=[J("TestC13_Grid", shards=2), J("TestC13_Grid", shards=2, env={"GODEBUG": "asynctimerchan=1"}), J("TestC13_Random", checks=30, shards=8, par=40), J("TestC13_Random", checks=250, shards=16, env={"GODEBUG": "asynctimerchan=1"}, par=40), J("TestC13_CloseDuringSlowList", checks=15, shards=4, par=32), J("TestC13_CloseDuringSlowList", checks=15, shards=2, env={"GODEBUG": "asynctimerchan=1"}, par=32), J("TestC13_RunsOrStops", checks=60, shards=4, par=32), J("TestC13_LongPeriods", checks=12, shards=4, par=32), J("TestC13_SlowListScale", shards=3, env={"VERIF_SLOWLIST_N": "3"}, par=32)],
        thorough=[J("TestC13_Grid", shards=2, count=5), J("TestC13_Grid", shards=2, count=5, env={"GODEBUG": "asynctimerchan=1"}), J("TestC13_Random", checks=600, shards=16, par=40, timeout=2400), J("TestC13_Random", checks=1500, shards=24, env={"GODEBUG": "asynctimerchan=1"}, par=40, timeout=2400), J("TestC13_CloseDuringSlowList", checks=300, shards=8, par=32), J("TestC13_CloseDuringSlowList", checks=300, shards=8, env={"GODEBUG": "asynctimerchan=1"}, par=32), J("TestC13_RunsOrStops", checks=1500, shards=8, par=32), J("TestC13_LongPeriods", checks=150, shards=8, par=32), J("TestC13_SlowListScale", shards=5, par=32, timeout=600)],
    ),
    "C04": dict(
        level="fault_enumeration",
        rule="rapid histories against a real controller with refresh period 1 h (only the watch can deliver): 1-25 operations of server changes (4 keys), short pauses, and watch faults {server closes the stream (after a burst of 0-40 updates), frame without object, next Watch() calls fail, per-session plans of status / bookmark / unknown-type frames at generated positions} with a controller-level filter that sleeps 0-200us per event while the burst arrives (watcher buffer non-empty at the disconnect) and with or without waiting out the 1 s reconnect delay before continuing. Oracle: final double marker arrives through the watch; cache == server state; the subscriber's strict mirror == cache; exactly one List call; Watch() resourceVersions non-decreasing and each the list version or the version of an event sent on an earlier session. Non-trivial = >= 1 reconnect with >= 1 server change after it; distinct = hash of history.",
        assumptions=["the library's watch retry delay is a 1 s constant (not hookable add-only): cases run in many parallel processes", "cases in which the harness itself overflowed the watcher buffer (logged by the library) are discarded and counted"],
        quick=[J("TestC04_Reconnects", checks=4, shards=40, par=48, timeout=600, shrink="5s")],
        thorough=[J("TestC04_Reconnects", checks=50, shards=64, par=64, env={"VERIF_C04_MAXFAULTS": "4"}, timeout=2400, shrink="5s")],
    ),
    "C03": dict(
        level="fault_enumeration",
        rule="rapid histories against a real controller with refresh period 1-5 ms and gated lists on the fake API server: per case 2-8 relists, each preceded by generated server changes (5 keys, labels moving objects across the controller filter) and overlapped by changes made while the list is in flight; the snapshot returned is the one taken at call or at release (generated); watch mode in {never connects, faithful, faulty: per-session generated plans of status / bookmark / unknown-type frames, dropped and duplicated events, stream closes, connect errors}; controller filter from a 6-element family. The Watch call at the list's resourceVersion is held by the fake until the cache has been inspected. Oracle: per key, cache value in Allowed(k) (see c03_test.go), cached objects satisfy the filter, the unfiltered subscriber's strict mirror converges to the cache while the Watch is held, and after the history stops one further relist yields exact equality with the server's accepted objects. Non-trivial = >= 3 completed relists, at least one changing the cache, and a fault / in-flight event / dead watch; distinct = hash of history.",
        assumptions=["relist completion is observed without hooks as the Watch(resourceVersion = list RV) call that follows cache.sync and event distribution", "Allowed(k) is a superset of the reachable outcomes (dropped events are treated as deliverable): never a false alarm, may accept an outcome a stricter oracle would refuse"],
        quick=[J("TestC03_Relists", checks=250, shards=8, procs=[2, 4, 8, 16]), J("TestC03_Backlog", checks=30, shards=6, procs=[2, 4, 16, 1, 8, 2]), J("TestC03_RelistAfterReconnect", checks=2, shards=12, par=32, shrink="5s")],
        thorough=[J("TestC03_Relists", checks=8000, shards=16, procs=[1, 2, 4, 8, 16], timeout=2400), J("TestC03_Backlog", checks=800, shards=12, procs=[1, 2, 4, 8, 16], timeout=2400), J("TestC03_RelistAfterReconnect", checks=20, shards=32, par=64, shrink="5s", timeout=2400)],
    ),
    "C16": dict(
        level="exploration",
        rule="rapid cases: publisher kind {root, clone, filtered clone} x handler behaviour {fast, microsecond delay, slower than the producer, blocked on a harness channel then released} x Close moment {before the publisher is ready (first list gated), publisher shut down before ready, mid-stream, after the stream, never} x streams of 0-300 create/update/delete events in bursts between barriers; a recording handler logs every callback (kind, object, overlap counter, whether Done had been observed) and a witness subscription is created back-to-back with the monitor. Oracle: OnInitialize at most once, first, with the publisher's cache at readiness; callbacks == witness events one for one (type and object identity), a prefix when closed mid-stream, an in-order subsequence when the handler was blocked beyond the buffer; never overlapping; none after Done was observed; none at all when the publisher died before ready. Non-trivial = >= 20 callbacks of all three types with a slow/blocked handler or a mid-stream Close; distinct = hash of history.",
        assumptions=["typed monitors are compared with untyped ones in the C20 differential"],
        quick=[J("TestC16_Monitor", checks=250, shards=8, procs=[2, 4, 8, 16]), J("TestC16_MonitorModel", checks=1500, shards=2, procs=[2, 8])],
        thorough=[J("TestC16_Monitor", checks=4000, shards=16, procs=[1, 2, 4, 8, 16], timeout=2400), J("TestC16_MonitorModel", checks=60000, shards=8, procs=[1, 2, 4, 16], timeout=2400)],
    ),
    "C12": dict(
        level="fault_enumeration",
        rule="shutdown-point enumeration: a rapid-drawn workload of n <= 14 steps (release of the gated first list, server changes, attaches of all kinds incl. monitors, refilters, node closes, stalled consumers, server-side watch disconnects with connect errors (retry timer pending), relists left pending at the gate; in a second job: a server-side disconnect followed by the real-time wait for the watcher's reconnect, shutdown points enumerated from there on) is re-run n+1 times on fresh worlds and the shutdown trigger {Close, 4 concurrent Close, context cancel, list error} is fired after step k for every k in 0..n, with up to 5 generated API calls {Subscribe*, Clone*, Refilter, NewMonitor, Close, Cache().List/Get} racing with it and all ten call kinds re-issued on every node after Done. Oracle: Close() returns and Done() closes within the wedge bound; every node done; zero goroutines created by library code (context still live unless it was the trigger); every call returns ErrNotRunning or a value; objects obtained while racing become done. Non-trivial = some shutdown point hit a pending relist, a pending reconnect timer, concurrent Close calls, or a not-yet-ready root with racing API calls; distinct = (trigger, gating, workload).",
        assumptions=["the fake client returns from List/Watch once its context is cancelled (the property's premise)", "wedge bound 10 s, confirmed once with 25 s more, against sub-millisecond normal latencies"],
        quick=[J("TestC12_ShutdownPoints", checks=120, shards=8, procs=[2, 4, 8, 16]),
               J("TestC12_ShutdownPoints", checks=2, shards=24, par=48, env={"VERIF_C12_RECONNECT": "1"}, shrink="5s"),
               J("TestC12_HungWatch", checks=150, shards=4, procs=[2, 4, 16, 1])],
        thorough=[J("TestC12_ShutdownPoints", checks=2500, shards=16, procs=[1, 2, 4, 8, 16], timeout=2400),
                  J("TestC12_ShutdownPoints", checks=600, shards=4, env={"GODEBUG": "asynctimerchan=1"}, timeout=2400),
                  J("TestC12_ShutdownPoints", checks=25, shards=48, par=64, env={"VERIF_C12_RECONNECT": "1"}, shrink="5s", timeout=2400),
                  J("TestC12_HungWatch", checks=5000, shards=8, procs=[1, 2, 4, 16], timeout=2400)],
    ),
    "C11": dict(
        level="exploration",
        rule="rapid: (a) quiet tree state machine (all six attach kinds + monitors, depth <= 4) with 'close any node' as an operation, closed-set and survivor oracles after every operation; (b) one close per case at a generated moment {before the root is ready (first list gated), mid-stream with traffic in flight, during a Refilter issued from another goroutine, during a gated relist, quiet} by a generated mechanism {Close of any node; root: context cancel, fatal list error of 5 kinds}, then further traffic/Subscribe/Refilter on the survivors. Oracle: closed set == subtree of the closed node (Done closed, Events closed after buffered events); every other node has Done/Events open, converges at the next barrier with an exact strict mirror, accepts Subscribe and Refilter, receives fresh events; root closes: everything done and no library goroutine left; (c) the shutdown trigger (cancel, Close, several Closes, both) lands while the controller is busy - its own filter blocks on a harness channel while the cache applies the k-th list (k = 1..3, the watch hanging) or a watch event - optionally after every other goroutine has reacted and parked; then the filter returns: Done() of the controller and of every descendant closes, every Events() channel is closed, Close() returns, no goroutine is left. Non-trivial = the closed node is internal (has descendants) and has a live sibling with traffic after the close (or is the root); distinct = hash of history.",
        assumptions=["joins as tree nodes are exercised by C09's close oracle, not here", "interleavings are perturbed, not enumerated"],
        quick=[J("TestC11_Machine", checks=500, shards=4), J("TestC11_Moments", checks=500, shards=6, procs=[2, 4, 8, 16]), J("TestC11_ShutdownWhileApplying", checks=300, shards=4, procs=[2, 4, 8, 16])],
        thorough=[J("TestC11_Machine", checks=15000, shards=8, timeout=2400), J("TestC11_Moments", checks=20000, shards=8, procs=[1, 2, 4, 16], timeout=2400), J("TestC11_ShutdownWhileApplying", checks=20000, shards=8, procs=[1, 2, 4, 16], timeout=2400)],
    ),
    "C10": dict(
        level="exploration",
        rule="rapid cases: a generated tree (plain subscribers of the root, of clones and of filtered clones, filtered subscriptions, monitors), a generated subset of plain subscribers stalled (never reading) and of monitors with a handler blocked on a harness channel, others slow; a stream of 0..4xEventBufsiz events in bursts of <= EventBufsiz/4 paced by double-marker barriers over the healthy nodes only (each barrier also checks every healthy cache and strict mirror); then the stalled consumers are released. Oracles: barriers complete; the controller's witness holds exactly the published sequence; healthy siblings agree with their publisher's witness; each released consumer delivers at least min(sent-to-it, EventBufsiz) events and what it delivers is an in-order subsequence of what was sent to it. Further generated variations: partial resume of an overflowed consumer, resume while events keep coming, a stalled subscriber closed in the middle of a burst, a stalled filtered subscription refiltered, a structural check at quiescent points that no library goroutine is parked in a hand-over, now and then a stream of 5-150 buffers, and one stalled subscriber that meets the controller's shutdown with its buffer unread (Done closes; the buffered events come before the closed channel). Non-trivial = >= 1 stalled consumer that was sent more than EventBufsiz events, with a healthy sibling under the same publisher; distinct = hash of the history.",
        assumptions=["no upper bound on what a stalled consumer holds and no prefix-ness is asserted (the statement promises neither)", "typed subscriptions as stalled consumers are covered by the C20 differential, not here"],
        quick=[J("TestC10_SlowConsumers", checks=60, shards=12, procs=[2, 4, 8, 16])],
        thorough=[J("TestC10_SlowConsumers", checks=1500, shards=16, procs=[1, 2, 4, 8, 16], timeout=2400)],
    ),
    "C05": dict(
        level="exploration",
        rule="rapid state machine: trees of plain Subscribe/Clone up to depth 3 over a real controller; the stream (up to several hundred create/update/delete events over 6 keys) is published in bursts with at most EventBufsiz/4 events in flight between double-marker barriers; subscribers attach at generated moments, consumers read with generated per-event delays, the logger perturbs the schedule, GOMAXPROCS varies per shard. Oracle: each leaf's log is exactly a suffix ref[i:] of the published sequence with i <= the number of events published when its Subscribe/Clone returned; after each received event the leaf's Cache().Get never returns an older version. A further scenario stalls one library goroutine for 1.3 s at a drawn log call while fewer than one buffer of events is published: every subscriber must still hold exactly the published sequence. Non-trivial = >= 3 leaves at >= 2 depths, >= 1 subscriber attached after events were published, >= 50 events (stall scenario: the stall began while events were being published); distinct = hash of the history.",
        assumptions=["cases in which the harness itself overran a buffer are discarded and counted (none expected by construction)", "interleavings are perturbed, not enumerated"],
        quick=[J("TestC05_FanOut", checks=50, shards=16, steps=50, procs=[1, 2, 4, 8, 16]), J("TestC05_RelistDiffOrder", checks=150, shards=6, procs=[2, 4, 1, 16, 2, 8]), J("TestC05_StalledGoroutine", checks=6, shards=8, procs=[2, 4, 8, 16])],
        thorough=[J("TestC05_FanOut", checks=1500, shards=32, steps=60, procs=[1, 2, 4, 8, 16], timeout=2400), J("TestC05_RelistDiffOrder", checks=6000, shards=16, procs=[1, 2, 4, 8, 16], timeout=2400), J("TestC05_StalledGoroutine", checks=60, shards=16, procs=[1, 2, 4, 8, 16], timeout=2400)],
    ),
    "C08": dict(
        level="exploration",
        rule="bounded-exhaustive: all 46656 orders of length 6 over {parent becomes ready, Refilter(equal), Refilter(new), parent event, parent cache change, subscribe} x 12 variants (immediate/deferred x subscription/clone x node depth 1..3), the first list gated so that 'parent becomes ready' is a step; after every step Ready() of every node must be closed iff the readiness model says so, no event may precede Ready, the listing taken at the instant Ready is observed must equal the filtered parent content, caches/mirrors must match the reference (quick: every 40th order); plus rapid orders fired back-to-back under schedule perturbation incl. failing first lists (nothing ever ready, everything done). Non-trivial = the order has a Refilter before and after parent readiness, or a parent event/change after parent readiness (random: or a failing first list); distinct = (variant, order).",
        assumptions=["'Ready() not closed' is asserted at arbitrary instants (safe: it can only flip one way); 'Ready() closed' is awaited with a wedge bound"],
        quick=[J("TestC08_Enum", shards=8, env={"VERIF_ENUM_STRIDE": "40"}), J("TestC08_Racy", checks=700, shards=4, procs=[2, 4, 8, 16]), J("TestC08_BlankListVersion", checks=150, shards=2, procs=[2, 8]), J("TestC06_FilterSubscriptionModel", checks=400, shards=2, procs=[2, 8], env={"VERIF_FSMODEL_PROP": "C08"})],
        thorough=[J("TestC08_Enum", shards=16, timeout=2400), J("TestC08_Racy", checks=15000, shards=8, procs=[1, 2, 4, 16], timeout=1800), J("TestC08_BlankListVersion", checks=4000, shards=4, procs=[1, 2, 4, 16], timeout=1800), J("TestC06_FilterSubscriptionModel", checks=15000, shards=4, procs=[1, 2, 4, 16], env={"VERIF_FSMODEL_PROP": "C08"}, timeout=2400)],
    ),
    "C07": dict(
        level="exploration",
        rule="bounded-exhaustive: all 256 parent contents over 4 keys x {absent, x=1, x=2, unlabeled} x all 512 ordered triples (f1,f2,f3) of an 8-filter family, run as chains f1->f2->f3->f1 of Refilter calls on a real filtered subscription between double-marker barriers, each Refilter checked for the exact multiset of Create/Delete events, identity of retained objects, empty delta for equal filters, and restoration of the view under f1; the same over all ordered pairs of a 19-member composite family (duplicated / permuted / replaced children, empty composites, double negation); plus rapid chains (family filters and generated structurally-nearby filters) on larger universes, deferred and immediate nodes and nodes below a filtered clone with parent traffic in between. Non-trivial = some Refilter of the triple both removes and adds an object, or is to an equal filter with a non-empty cache; distinct = (content, f1, f2, f3) / hash of history.",
        assumptions=["events are collected between two double-marker barriers; no parent event is in flight during a checked Refilter (the property's premise)"],
        quick=[J("TestC07_Enum", shards=16), J("TestC07_EnumComposite", shards=8), J("TestC07_Random", checks=600, shards=2)],
        thorough=[J("TestC07_Enum", shards=16), J("TestC07_EnumComposite", shards=16), J("TestC07_Random", checks=15000, shards=8, timeout=1800)],
    ),
    "C06": dict(
        level="exploration",
        rule="rapid state machines over a real controller fed by the fake API server and a generated tree (depth <= 3) mixing Subscribe/SubscribeWithFilter/SubscribeForFilter/Clone/CloneWithFilter/CloneForFilter: operations put/del (labels move objects in and out of filters), attach, Refilter over a 10-filter family (equal, overlapping, disjoint, accept-all, accept-none, non-comparable FN), lost watch events followed by gated relists. Quiet mode: double-marker barrier after every operation, then every live node's cache must equal the conjunction of the reference predicates on its path applied to the controller's view, its strict mirror must equal its cache, readiness must match the readiness model. Racy mode: server traffic and Refilter scripts run concurrently under logger-driven schedule perturbation, oracles at a final barrier. Non-trivial = tree with a filtered node below a filtered node, a Refilter on a ready node and an object that crossed a filter boundary by update; distinct = hash of the operation history.",
        assumptions=["controller-level and node filters are wrapped as Or(f, NSName(zz/*)) so that barrier markers pass; oracles ignore namespace zz", "interleavings are perturbed (logger yields/sleeps, GOMAXPROCS), not enumerated"],
        quick=[J("TestC06_Quiet", checks=500, shards=5), J("TestC06_Racy", checks=500, shards=5, procs=[2, 4, 8, 16, 1]), J("TestC06_FilterSubscriptionModel", checks=400, shards=4, procs=[2, 4, 1, 16]), J("TestC06_FilterSubscriptionEnum", shards=8, env={"VERIF_ENUM_STRIDE": "4"})],
        thorough=[J("TestC06_Quiet", checks=12000, shards=8, timeout=2400), J("TestC06_Racy", checks=12000, shards=8, procs=[1, 2, 4, 16], timeout=2400), J("TestC06_FilterSubscriptionModel", checks=25000, shards=8, procs=[1, 2, 4, 16], timeout=2400), J("TestC06_FilterSubscriptionEnum", shards=16, timeout=2400),
                  J("TestC06_FilterSubscriptionEnum", shards=16, env={"VERIF_FSENUM_STEPS": "3", "VERIF_ENUM_STRIDE": "4"}, timeout=2400)],
    ),
    "C15": dict(
        level="exploration",
        rule="rapid-generated writer scripts (10-160 mutating calls: whole-generation syncs, refilters toggling between accept-all and a label filter, single-object updates) over 1-6 objects with 1-12 concurrent reader goroutines doing List/Get; every read must equal the scripted cache content at some call index between the writer's finished-counter read before and started-counter read after the call, indices per reader never decrease, returned slices are scribbled over; built with -race (a race report fails the check); plus the same oracle through the public API: a controller whose watch never connects is moved through generations by gated relists (2-200 objects) while readers list Controller.Cache(). Non-trivial = >= 4 readers, >= 50 writer calls and >= 1 refilter; distinct = (objects, readers, script).",
        assumptions=["schedules are whatever the Go scheduler produces under -race with reader-side yields and GOMAXPROCS in {2,4,8,16}; not enumerated", "cache driven through the add-only hook NewVerifCache"],
        quick=[J("TestC15_Snapshots", checks=700, shards=4, race=True, procs=[2, 4, 8, 16]), J("TestC15_ControllerRelists", checks=250, shards=3, race=True, procs=[2, 4, 16])],
        thorough=[J("TestC15_Snapshots", checks=5000, shards=16, race=True, procs=[1, 2, 4, 8, 16], timeout=1800), J("TestC15_ControllerRelists", checks=4000, shards=8, race=True, procs=[1, 2, 4, 16], timeout=1800)],
    ),
    "C01": dict(
        level="exploration",
        rule="rapid state machine over the real cache actor (hook NewVerifCache): initial filter from a 12-filter family x sequences of sync/update/refilter over 4 keys, versions -2..40 plus malformed strings, 3 label values, lists with duplicates and malformed entries; after every operation List/Get are compared with the reference model. Plus the bounded-exhaustive universe of the property (2 keys x versions 0..5 x 2 labels x 4 filters: every single next operation from every reachable state; quick samples every 4th state). Non-trivial = the sequence contains an operation with an incoming version <= the cached one, or a filter rejecting a cached key, or a duplicate/malformed entry (enumeration: a non-empty state); distinct = hash of the rendered operation sequence / state.",
        assumptions=["the cache actor is driven through the add-only hook NewVerifCache (build tag verif)", "for keys occurring twice in one list or with non-numeric versions only the invariants are demanded (the statement names them only in its no-crash clause)", "a delete older than the cached version may have either outcome"],
        quick=[J("TestC01_Random", checks=4000, shards=6), J("TestC01_Enum", env={"VERIF_ENUM_STRIDE": "4"})],
        thorough=[J("TestC01_Random", checks=25000, shards=12), J("TestC01_Enum", shards=4, timeout=1800), J("FuzzC01", fuzztime="60s", timeout=600)],
    ),
    "C02": dict(
        level="exploration",
        rule="same generators as C01 (rapid state machine + bounded-exhaustive universe); oracle: the events returned by each mutation, replayed strictly (Create only if absent, Update only if present and strictly newer, Delete only if present) over the content read before the call give exactly the content read after it, by object identity, and an unchanged content comes with no event. Non-trivial = the sequence contains at least one operation that changes nothing and at least one that emits >= 2 events (enumeration: a non-empty state); distinct = hash of the rendered sequence / state.",
        assumptions=["the cache actor is driven through the add-only hook NewVerifCache (build tag verif)", "the tree-level part (a consumer mirroring a node by replaying its events never diverges) is exercised by the strict mirrors of the C03/C06 harness"],
        quick=[J("TestC02_Random", checks=4000, shards=6), J("TestC02_Enum", env={"VERIF_ENUM_STRIDE": "4"})],
        thorough=[J("TestC02_Random", checks=25000, shards=12), J("TestC02_Enum", shards=4, timeout=1800), J("FuzzC02", fuzztime="60s", timeout=600)],
    ),
    "C19": dict(
        level="exploration",
        rule="bounded-exhaustive: for each of the 7 workload kinds every source set of <=2 (thorough: <=3) workloads over 2 namespaces x selector variants {absent, empty, one label, two labels, In, NotIn, Exists} x template labels {absent, one label} against every pod over 2 namespaces x 9 label maps; every set of <=2 ingresses (default backend absent/empty/named x 0-3 paths) against 6 services; node/involved/selector-match filters over their argument universes against pods, services, events and foreign kinds; plus rapid-generated source sets (<=3 sources, 3 namespaces, 16 label maps). Oracle = reference ownership predicates. Non-trivial = sources in >1 namespace, or a source lacking a selector / using set-based requirements, or an ingress with >1 backend; distinct = distinct filter rendering.",
        assumptions=["workload sources have distinct namespace/name and non-empty namespaces", "PodsFilter is only asked about pods and ServicesFilter about services (the statement speaks of pods/services)"],
        quick=[J("TestC19_Enum"), J("TestC19_Random", checks=30000)],
        thorough=[J("TestC19_Enum", shards=16), J("TestC19_Random", checks=200000, shards=8), J("FuzzC19", fuzztime="45s", timeout=600)],
    ),
    "C17": dict(
        level="exploration",
        rule="pairs of filter terms (all constructors incl. typed workload filters, depth <= 3): rapid pairs biased to 'same constructor, nearby / permuted / rebuilt arguments', plus all ordered pairs of enumerated depth<=1 terms; for every pair reported equal by FiltersEqual or Equals the real Accept of both sides is compared on the whole 250+ object universe. Non-trivial = the pair is reported equal (the only cases in which soundness can fail); distinct = distinct rendering of the ordered pair.",
        assumptions=["soundness is judged on the finite object universe (3 ns x 3 names x 16 label maps of pods, pods with node names, services with selectors, events, two foreign kinds)",
                     "workload sources have distinct namespace/name, as in a real cluster"],
        quick=[J("TestC17_Random", checks=30000), J("TestC17_Enum"), J("TestC17_LabelSets"), J("TestC17_NSNameSets")],
        thorough=[J("TestC17_Random", checks=200000, shards=16), J("TestC17_Enum", shards=16, timeout=1800), J("TestC17_LabelSets", shards=4), J("TestC17_NSNameSets", shards=2), J("FuzzC17", fuzztime="60s", timeout=600)],
    ),
    "C18": dict(
        level="exploration",
        rule="rapid-generated filter terms (depth <= 3) over the filter package's constructors evaluated on generated slices of the 3ns x 3names x 16 label-map universe, plus enumerated terms against the complete universe; compared with an independent evaluator. Non-trivial = term of depth >= 2 containing a partial NSName entry or a set-based selector requirement; distinct = distinct term rendering.",
        assumptions=["label keys/values restricted to the valid universe x,y / 1,2,'' (empty string) (filter.LabelSelector panics on invalid selectors by contract)",
                     "NSName entries with both fields empty are outside the contract and never generated"],
        quick=[J("TestC18_Random", checks=40000), J("TestC18_Enum"), J("TestC18_SharedSubfilters", checks=5000)],
        thorough=[J("TestC18_Random", checks=150000, shards=16), J("TestC18_Enum", shards=16), J("TestC18_SharedSubfilters", checks=100000, shards=4), J("FuzzC18", fuzztime="60s", timeout=600)],
    ),
}


# --------------------------------------------------------------------------

def seed_for(base, prop, job, shard):
    h = hashlib.sha256(f"{base}/{prop}/{job}/{shard}".encode()).digest()
    v = int.from_bytes(h[:8], "little") & 0x7FFFFFFFFFFFFFFF
    return v or 1


def build(race, workdir, log):
    out = os.path.join(workdir, "harness-race.test" if race else "harness.test")
    cmd = ["go", "test", "-c", "-tags", "verif", "-vet=off", "-o", out]
    if race:
        cmd.insert(3, "-race")
    if OVERRIDE:
        modfile = os.path.join(workdir, "override.mod")
        with open(os.path.join(HARNESS, "go.mod")) as f:
            mod = f.read().replace("=> /repo", "=> " + OVERRIDE)
        with open(modfile, "w") as f:
            f.write(mod)
        shutil.copyfile(os.path.join(HARNESS, "go.sum"), os.path.join(workdir, "override.sum"))
        cmd.insert(3, "-modfile=" + modfile)
    cmd.append(".")
    t0 = time.time()
    r = subprocess.run(cmd, cwd=HARNESS, env=env_base(), stdout=subprocess.PIPE, stderr=subprocess.STDOUT, text=True)
    log.write(f"$ {' '.join(cmd)}  ({time.time()-t0:.1f}s, exit {r.returncode})\n{r.stdout}\n")
    if r.returncode != 0:
        sys.stdout.write(r.stdout)
        return None
    return out


def known_findings():
    p = os.path.join(ROOT, "known_findings.json")
    if os.path.exists(p):
        with open(p) as f:
            return json.load(f)
    return {"findings": []}


FAILFILE_RE = re.compile(r'-rapid\.failfile="([^"]+)"')
REPLAY_RE = re.compile(r'^VERIF-REPLAY property=(\S+) file=(\S+)', re.M)


def run_jobs(prop, tier, jobs, seed, workdir, log):
    """Runs all shards of all jobs with bounded parallelism. Returns list of results."""
    need_race = any(j["race"] for j in jobs)
    need_plain = any(not j["race"] for j in jobs)
    bins = {}
    if need_plain:
        bins[False] = build(False, workdir, log)
        if bins[False] is None:
            return None
    if need_race:
        bins[True] = build(True, workdir, log)
        if bins[True] is None:
            return None
    statsdir = os.path.join(workdir, "stats")
    os.makedirs(statsdir, exist_ok=True)
    replaydir = os.path.join(workdir, "replays")
    os.makedirs(replaydir, exist_ok=True)

    pending = []
    for ji, j in enumerate(jobs):
        for s in range(j["shards"]):
            pending.append((ji, j, s))
    running = []
    results = []
    maxpar = int(os.environ.get("VERIF_PAR", max([NCPU] + [j["par"] for j in jobs if j.get("par")])))

    def launch(ji, j, s):
        cwd = os.path.join(workdir, f"job{ji}-shard{s}")
        os.makedirs(cwd, exist_ok=True)
        args = [bins[j["race"]], f"-test.run=^{j['test']}$", f"-test.timeout={j['timeout']}s", f"-test.count={j['count']}"]
        rseed = seed_for(seed, prop, j["test"], s)
        if j.get("fuzztime"):
            # native coverage-guided fuzzing (thorough tier only): go builds its own instrumented binary;
            # a campaign cannot be pinned to a seed, the saved failing input is the reproducible unit
            args = ["go", "test", "-tags", "verif", "-vet=off", "-run", "^$", "-fuzz", f"^{j['test']}$", "-fuzztime", j["fuzztime"], "."]
            if OVERRIDE:
                args.insert(2, "-modfile=" + os.path.join(workdir, "override.mod"))
            cwd = HARNESS
        if j["checks"] is not None:
            args += [f"-rapid.checks={j['checks']}", f"-rapid.seed={rseed}", f"-rapid.shrinktime={j['shrink']}"]
            if j.get("steps"):
                args.append(f"-rapid.steps={j['steps']}")
        e = env_base()
        if OVERRIDE:
            e["VERIF_REPO"] = OVERRIDE
        e.update({
            "VERIF_STATS_DIR": statsdir,
            "VERIF_REPLAY_DIR": replaydir,
            "VERIF_TIER": tier,
            "VERIF_SEED": str(seed),
            "VERIF_SHARD_SEED": str(rseed),
            "VERIF_SHARD": f"{s}/{j['shards']}",
        })
        if j["procs"]:
            e["GOMAXPROCS"] = str(j["procs"][s % len(j["procs"])])
        e.update(j["env"])
        outpath = os.path.join(cwd, "output.txt")
        outf = open(outpath, "w")
        p = subprocess.Popen(args, cwd=cwd, env=e, stdout=outf, stderr=subprocess.STDOUT)
        return dict(proc=p, job=j, ji=ji, shard=s, cwd=cwd, out=outpath, outf=outf, start=time.time(), seed=rseed, args=args, env=e)

    while pending or running:
        while pending and len(running) < maxpar:
            ji, j, s = pending.pop(0)
            running.append(launch(ji, j, s))
        time.sleep(0.05)
        still = []
        for r in running:
            rc = r["proc"].poll()
            if rc is None:
                if time.time() - r["start"] > r["job"]["timeout"] + 60:
                    r["proc"].kill()
                    r["proc"].wait()
                    r["rc"] = -9
                    r["timedout"] = True
                else:
                    still.append(r)
                    continue
            else:
                r["rc"] = rc
            r["outf"].close()
            r["wall"] = time.time() - r["start"]
            with open(r["out"], errors="replace") as f:
                r["text"] = f.read()
            log.write(f"--- {r['job']['test']} shard {r['shard']} seed {r['seed']} exit {r['rc']} ({r['wall']:.1f}s)\n")
            log.write(r["text"][-20000:] + "\n")
            results.append(r)
        running = still
    return results


def merge_stats(prop, statsdir):
    evaluations = 0
    nontrivial_total = 0
    labels = {}
    samples = []
    exhaustive = []
    extra = {}
    known = {}
    excluded = 0
    slow = 0
    hashes = set()
    files = sorted(f for f in os.listdir(statsdir) if f.startswith(prop + ".") and f.endswith(".json"))
    for fn in files:
        with open(os.path.join(statsdir, fn)) as f:
            d = json.load(f)
        evaluations += d.get("evaluations", 0)
        nontrivial_total += d.get("nontrivial_total", 0)
        for k, v in (d.get("labels") or {}).items():
            labels[k] = labels.get(k, 0) + v
        for s in d.get("samples") or []:
            samples.append(s)
        for x in d.get("exhaustive_runs") or []:
            if x not in exhaustive:
                exhaustive.append(x)
        for k, v in (d.get("extra") or {}).items():
            if isinstance(v, (int, float)):
                extra[k] = extra.get(k, 0) + v
            else:
                extra[k] = v
        for k, v in (d.get("known_findings") or {}).items():
            known[k] = known.get(k, 0) + v
        excluded += d.get("excluded_known", 0)
        slow += d.get("slow_waits", 0)
        hp = os.path.join(statsdir, fn[:-5] + ".hashes")
        if os.path.exists(hp):
            a = array.array("Q")
            with open(hp, "rb") as f:
                data = f.read()
            a.frombytes(data[: len(data) // 8 * 8])
            hashes.update(a)
    # samples: per mode (bucket) the two distinct non-trivial cases with the smallest hashes over all
    # shards, modes interleaved, at most 12 in all
    by_bucket = {}
    for s in samples:
        if isinstance(s, dict) and "case" in s and "bucket" in s:
            by_bucket.setdefault(s["bucket"], {})[s.get("hash", 0)] = s["case"]
        else:
            by_bucket.setdefault("", {})[len(by_bucket.get("", {}))] = s
    picked = []
    for rank in range(2):
        for b in sorted(by_bucket):
            hs = sorted(by_bucket[b])
            if rank < len(hs) and len(picked) < 12:
                picked.append(by_bucket[b][hs[rank]])
    samples = picked
    return dict(evaluations=evaluations, nontrivial_total=nontrivial_total, labels=labels, samples=samples,
                exhaustive=exhaustive, extra=extra, known=known, excluded=excluded, slow=slow,
                distinct=len(hashes))


def classify(r):
    """Returns ('ok'|'violation'|'infra', detail, replay_source_path)"""
    text = r["text"]
    if r.get("timedout"):
        return "infra", "budget timeout", None
    if r["rc"] == 0:
        j = r["job"]
        if j["checks"] is not None:
            m = re.findall(r"\[rapid\] OK, passed (\d+) tests", text)
            # output only shown with -test.v; accept silent success
            if m and int(m[-1]) < j["checks"]:
                return "infra", f"only {m[-1]} of {j['checks']} cases ran", None
        return "ok", "", None
    # failures
    if "panic: test timed out" in text:
        return "infra", "go test deadline reached (a wait in the harness was not bounded)", None
    m = REPLAY_RE.search(text)
    if m:
        return "violation", first_fail_line(text), m.group(2)
    m = re.search(r"Failing input written to (\S+)", text)
    if m:
        ff = m.group(1)
        if not os.path.isabs(ff):
            ff = os.path.join(HARNESS, ff)
        return "violation", first_fail_line(text), ff
    m = FAILFILE_RE.search(text)
    if m and "[rapid]" in text:
        ff = m.group(1)
        if not os.path.isabs(ff):
            ff = os.path.join(r["cwd"], ff)
        if "VERIF-INCONCLUSIVE" in text:
            return "infra", first_fail_line(text), ff
        return "violation", first_fail_line(text), ff
    if "WARNING: DATA RACE" in text:
        return "violation", "data race reported by the race detector: " + race_summary(text), None
    if "panic:" in text or "fatal error:" in text:
        # a Go panic that killed the worker: a violation when library frames are on the stack
        if "github.com/boz/kcache" in text or "github.com/boz/go-lifecycle" in text:
            return "violation", "worker died with a Go panic in library frames: " + first_panic_line(text), None
        return "infra", "worker died: " + first_panic_line(text), None
    if "test timed out" in text or "panic: test timed out" in text:
        return "infra", "go test deadline", None
    if "--- FAIL" in text:
        return "violation", first_fail_line(text), None
    return "infra", f"exit {r['rc']}", None


def first_fail_line(text):
    for line in text.splitlines():
        if "violation" in line.lower() or "WEDGE" in line:
            return line.strip()[:400]
    for line in text.splitlines():
        if "[rapid] failed" in line or "[rapid] panic" in line or "[rapid] flaky" in line:
            return line.strip()[:400]
    return "test failed"


def race_summary(text):
    lines = text.splitlines()
    for i, line in enumerate(lines):
        if "WARNING: DATA RACE" in line:
            frames = [l.strip() for l in lines[i + 1:i + 12] if l.strip().startswith("github.com/boz") or "by goroutine" in l]
            return " | ".join(frames[:4])[:400]
    return "?"


def first_panic_line(text):
    for line in text.splitlines():
        if line.startswith("panic:") or line.startswith("fatal error:"):
            return line.strip()[:300]
    return "?"


_trace_reruns = 0


def write_crash_replay(prop, r, workdir):
    """A worker death leaves no rapid fail file: save the invocation (rapid
    cases are a pure function of the seed) plus the tail of the output, and
    re-run the shard once with VERIF_TRACE=1 so that the operations leading
    to the crash are part of the replay file."""
    os.makedirs(REPLAYS, exist_ok=True)
    history = []
    global _trace_reruns
    try:
        _trace_reruns += 1
        if _trace_reruns > 1:
            raise RuntimeError("trace re-run already done for another shard of this run")
        e = dict(r["env"])
        e["VERIF_TRACE"] = "1"
        e.pop("VERIF_STATS_DIR", None)
        rr = subprocess.run(r["args"], cwd=r["cwd"], env=e, stdout=subprocess.PIPE, stderr=subprocess.DEVNULL,
                            text=True, errors="replace", timeout=min(120, r["job"]["timeout"]))
        history = [l for l in rr.stdout.splitlines() if l.startswith("TRACE ")][-80:]
    except Exception as ex:  # noqa
        history = [f"(trace re-run failed: {ex})"]
    p = os.path.join(REPLAYS, f"{prop}-{r['job']['test']}-crash-{int(time.time())}-{r['shard']}.json")
    with open(p, "w") as f:
        json.dump({"property": prop, "test": r["job"]["test"], "kind": "crash", "rapid_seed": r["seed"],
                   "checks": r["job"]["checks"], "env": r["job"]["env"], "shard": f"{r['shard']}/{r['job']['shards']}",
                   "race": r["job"]["race"], "history_tail": history, "output_tail": r["text"][-6000:]}, f, indent=1)
    return p


def save_replay(prop, r, src):
    os.makedirs(REPLAYS, exist_ok=True)
    base = os.path.basename(src)
    if not base.startswith(prop):
        base = f"{prop}-{base}"
    dst = os.path.join(REPLAYS, base)
    shutil.copyfile(src, dst)
    if os.path.abspath(src).startswith(os.path.join(HARNESS, "testdata", "fuzz")):
        os.remove(src)  # do not leave the crasher in the seed corpus of later campaigns
    # side-car with the invocation, so that --replay can rebuild the exact run
    with open(dst + ".meta.json", "w") as f:
        json.dump({"property": prop, "test": r["job"]["test"], "env": r["job"]["env"], "race": r["job"]["race"],
                   "rapid_seed": r["seed"], "checks": r["job"]["checks"], "shard": f"{r['shard']}/{r['job']['shards']}",
                   "procs": r["job"]["procs"]}, f, indent=1)
    return dst


def run_property(prop, tier):
    if prop not in PROPS:
        print(f"unknown property {prop}")
        return 2
    cfg = PROPS[prop]
    seed = int(os.environ.get("VERIF_SEED", "1") or "1")
    t0 = time.time()
    os.makedirs(BUILD, exist_ok=True)
    os.makedirs(EVIDENCE, exist_ok=True)
    workdir = os.path.join(BUILD, f"{prop}-{tier}-{os.getpid()}")
    shutil.rmtree(workdir, ignore_errors=True)
    os.makedirs(workdir)
    logpath = os.path.join(BUILD, f"{prop}-{tier}.log")
    rc = 2
    try:
        with open(logpath, "w") as log:
            results = run_jobs(prop, tier, cfg[tier], seed, workdir, log)
            if results is None:
                print(f"{prop} {tier}: build failed (see {logpath})")
                return 2
            stats = merge_stats(prop, os.path.join(workdir, "stats"))
            violations = []
            infra = []
            for r in results:
                if r["job"].get("fuzztime"):
                    ex = re.findall(r"execs: (\d+)", r["text"])
                    if ex:
                        stats["evaluations"] += int(ex[-1])
                        stats["labels"]["native_fuzz_execs_" + r["job"]["test"]] = int(ex[-1])
                kind, detail, src = classify(r)
                if kind == "violation":
                    if src and os.path.exists(src):
                        rp = save_replay(prop, r, src)
                    else:
                        rp = write_crash_replay(prop, r, workdir)
                    violations.append((detail, rp))
                elif kind == "infra":
                    infra.append(f"{r['job']['test']} shard {r['shard']}: {detail}")
                for line in r["text"].splitlines():
                    if line.startswith("KNOWN-FINDING:"):
                        stats.setdefault("known_lines", [])
                        if line not in stats["known_lines"]:
                            stats["known_lines"].append(line)
            wall = time.time() - t0
            write_evidence(prop, tier, seed, cfg, stats, len(violations), wall, results)
            for line in stats.get("known_lines", []):
                print(line)
            print(f"{prop} {tier}: evaluations={stats['evaluations']} distinct_nontrivial={stats['distinct']} "
                  f"violations={len(violations)} wall={wall:.1f}s seed={seed}")
            if violations:
                seen = set()
                for detail, rp in violations:
                    if rp in seen:
                        continue
                    seen.add(rp)
                    print(f"  {detail}")
                    print(f"VIOLATION property={prop} replay={rp}")
                rc = 1
            elif infra:
                for i in infra:
                    print(f"INCONCLUSIVE {prop}: {i}")
                rc = 2
            else:
                rc = 0
    finally:
        if not os.environ.get("VERIF_KEEP"):
            shutil.rmtree(workdir, ignore_errors=True)
    return rc


def write_evidence(prop, tier, seed, cfg, stats, nviol, wall, results):
    cov = {
        "evaluations": stats["evaluations"],
        "distinct_nontrivial": stats["distinct"],
        "rule": cfg["rule"],
        "samples": stats["samples"],
        "nontrivial_total": stats["nontrivial_total"],
        "labels": stats["labels"],
        "exhaustive": bool(stats["exhaustive"]) and all(j["checks"] is None and not j.get("fuzztime") for j in cfg[tier]),
        "exhaustive_subruns": stats["exhaustive"],
        "jobs": [dict(test=j["test"], rapid_checks_per_shard=j["checks"], shards=j["shards"], race=j["race"], env=j["env"], native_fuzz_time=j.get("fuzztime")) for j in cfg[tier]],
        "processes": len(results),
        "known_findings_hit": stats["known"],
        "cases_excluded_as_known": stats["excluded"],
        "slow_waits_resolved": stats["slow"],
    }
    cov.update({k: v for k, v in stats["extra"].items()})
    ev = {
        "property_id": prop,
        "tier": tier,
        "seed": seed,
        "level": cfg["level"],
        "coverage": cov,
        "assumptions": cfg.get("assumptions", []),
        "wall_s": round(wall, 2),
        "violations": nviol,
    }
    tmp = os.path.join(EVIDENCE, f".{prop}.json.tmp")
    with open(tmp, "w") as f:
        json.dump(ev, f, indent=1, sort_keys=False)
    os.replace(tmp, os.path.join(EVIDENCE, f"{prop}.json"))


def replay(path):
    path = os.path.abspath(path)
    meta = {}
    if os.path.exists(path + ".meta.json"):
        with open(path + ".meta.json") as f:
            meta = json.load(f)
    os.makedirs(BUILD, exist_ok=True)
    workdir = os.path.join(BUILD, f"replay-{os.getpid()}")
    shutil.rmtree(workdir, ignore_errors=True)
    os.makedirs(workdir)
    try:
        with open(os.path.join(BUILD, "replay.log"), "w") as log:
            e = env_base()
            e["VERIF_REPLAY_DIR"] = workdir
            if path.endswith(".json"):
                with open(path) as f:
                    d = json.load(f)
                meta = {**d, **meta}
                test = d["test"]
                args = [f"-test.run=^{test}$", "-test.v"]
                if d.get("kind") == "crash":
                    args += [f"-rapid.checks={d['checks']}", f"-rapid.seed={d['rapid_seed']}"]
                    e["VERIF_SHARD"] = d.get("shard", "0/1")
                else:
                    e["VERIF_ONLY_CASE"] = d["case"]
            elif (meta.get("test") or "").startswith("Fuzz"):
                test = meta["test"]
                d = os.path.join(HARNESS, "testdata", "fuzz", test)
                os.makedirs(d, exist_ok=True)
                name = "replay-" + os.path.basename(path)
                shutil.copyfile(path, os.path.join(d, name))
                r = subprocess.run(["go", "test", "-tags", "verif", "-vet=off", "-run", f"^{test}$/{name}", "-v", "."], cwd=HARNESS, env=e)
                os.remove(os.path.join(d, name))
                if r.returncode != 0:
                    print(f"VIOLATION property={meta.get('property', '?')} replay={path}")
                    return 1
                print(f"replay of {path}: passed (not reproduced)")
                return 0
            else:
                test = meta.get("test") or os.path.basename(path).split("-")[1]
                m = re.match(r"(?:C\d+-)?(Test[A-Za-z0-9_]+?)-\d{8}", os.path.basename(path))
                if m:
                    test = m.group(1)
                args = [f"-test.run=^{test}$", "-test.v", f"-rapid.failfile={path}", f"-test.count={os.environ.get('VERIF_REPLAY_COUNT', '1')}"]
            e.update(meta.get("env") or {})
            binp = build(bool(meta.get("race")), workdir, log)
            if binp is None:
                return 2
            r = subprocess.run([binp] + args, cwd=workdir, env=e)
            prop = meta.get("property", "?")
            if r.returncode != 0:
                print(f"VIOLATION property={prop} replay={path}")
                return 1
            print(f"replay of {path}: passed (not reproduced)")
            return 0
    finally:
        shutil.rmtree(workdir, ignore_errors=True)


def setup():
    os.makedirs(BUILD, exist_ok=True)
    workdir = os.path.join(BUILD, f"setup-{os.getpid()}")
    os.makedirs(workdir, exist_ok=True)
    try:
        with open(os.path.join(BUILD, "setup.log"), "w") as log:
            ok = build(False, workdir, log) is not None
            ok = (build(True, workdir, log) is not None) and ok
        return 0 if ok else 2
    finally:
        shutil.rmtree(workdir, ignore_errors=True)


def main(argv):
    if len(argv) >= 2 and argv[1] == "--setup":
        return setup()
    if len(argv) >= 3 and argv[1] == "--replay":
        return replay(argv[2])
    if len(argv) >= 3 and argv[2] in ("quick", "thorough"):
        return run_property(argv[1], argv[2])
    print(__doc__)
    return 2


if __name__ == "__main__":
    sys.exit(main(sys.argv))
